"""Sidecar contracts for C20 — graph files are parsed faithfully (structure part).

String primitives are abstract: H(t) := "line t starts with '#' after lstrip" is an uninterpreted predicate over line indexes.
read_graphs is verified against: the blocks handed to read_graph partition the suffix of the file that starts at the first header
line; every block starts at a header line, its header lines form a prefix of the block, it ends at the next header or at EOF;
blocks are contiguous and in file order."""
import z3
from pyvc import core
from pyvc.core import Sym, lift, INT, REAL, BOOL, STR, Unsupported
from pyvc.heap import SymSeq, SInt, SObj, STuple, Shape
from pyvc.rt import Tracked
from pyvc.unit import Unit, NoopLogger

P = "C20"
F = "flowpaths/utils/graphutils.py"
H = z3.Function("is_header_line", INT, BOOL)


class UtilsStub:
    logger = NoopLogger()


class Line:
    """a line of the file, identified by its index; only the header test is observable"""

    def __init__(self, idx=None):
        self.idx = idx

    def lstrip(self, *a):
        return _LS(self.idx)


class _LS:
    def __init__(self, idx):
        self.idx = idx

    def startswith(self, s):
        if s == "#":
            return Sym(H(lift(self.idx)))
        raise Unsupported("startswith(%r) on an abstract line" % (s,))


class SLine(Shape):
    def sorts(self): return [INT]
    def build(self, it): return Line(Sym(next(it)))
    def leaves(self, v): return [lift(v.idx)]


class Block:
    """what read_graph received: lines[start:end]"""

    def __init__(self, start=None, end=None):
        self.start, self.end = start, end


SBlock = SObj(Block, start=SInt, end=SInt)


def u_read_graphs():
    st = {}

    def blocks_ok(B, n):
        """the property clauses over the recorded blocks B (abstract list of Block)"""
        b, t, u = z3.Ints("b t u")
        nb = B.n
        S = lambda q: lift(B._at(q).start)
        E = lambda q: lift(B._at(q).end)
        inb = z3.And(b >= 0, b < nb)
        return {
            "each-block-is-a-nonempty-range-starting-at-a-header-line": z3.ForAll([b], z3.Implies(inb, z3.And(0 <= S(b), S(b) < E(b), E(b) <= n, H(S(b))))),
            "header-lines-form-a-prefix-of-their-block": z3.ForAll([b, t, u], z3.Implies(z3.And(inb, S(b) <= t, t < u, u < E(b), H(u)), H(t))),
            "a-block-ends-at-the-next-header-or-EOF": z3.ForAll([b], z3.Implies(inb, z3.Or(E(b) == n, H(E(b))))),
            "blocks-are-contiguous-and-in-file-order": z3.ForAll([b], z3.Implies(z3.And(b >= 0, b < nb - 1), S(b + 1) == E(b))),
            "lines-before-the-first-block-contain-no-header": z3.Implies(nb > 0, z3.ForAll([t], z3.Implies(z3.And(t >= 0, t < S(0)), z3.Not(H(t))))),
        }

    def inv_outer(ns, seq, done):
        B, i, n = ns["graphs"], lift(ns["i"]), lift(ns["n_lines"])
        t = z3.Int("t0")
        if not isinstance(B, SymSeq):
            nb = z3.IntVal(len(B))
            cl = {}
            if len(B):
                raise Unsupported("concrete non-empty block list")
            E_last = None
        else:
            nb = B.n
            cl = blocks_ok(B, n)
        cl["index-in-range"] = z3.And(i >= 0, i <= n)
        cl["no-header-skipped-before-the-first-block"] = z3.Implies(nb == 0, z3.ForAll([t], z3.Implies(z3.And(t >= 0, t < i), z3.Not(H(t)))))
        if isinstance(B, SymSeq):
            cl["scan-position-is-the-end-of-the-last-block"] = z3.Implies(nb > 0, lift(B._at(nb - 1).end) == i)
        return cl

    def mk_inner(kind):
        # kind: "skip" (loop 1: i over non-headers), "hdr" (loop 2: i over headers), "body" (loop 3: j over non-headers)
        def on_entry(ns, it=None):
            st[kind + ".entry"] = lift(ns["j" if kind == "body" else "i"])

        def inv(ns, seq, done):
            v = lift(ns["j" if kind == "body" else "i"])
            n = lift(ns["n_lines"])
            e = st[kind + ".entry"]
            t = z3.Int("ti")
            body = H(t) if kind == "hdr" else z3.Not(H(t))
            return {"scan-stays-in-range": z3.And(e <= v, v <= n),
                    "lines-passed-so-far-are-%s" % ("headers" if kind == "hdr" else "non-headers"): z3.ForAll([t], z3.Implies(z3.And(t >= e, t < v), body))}
        return dict(inv=inv, on_entry=on_entry, prop=P)

    def h(c, f):
        n = c.fresh_const("n_file_lines", INT)
        c.assume(n >= 0)
        lines = SymSeq(n, lambda j: Line(Sym(lift(j))), SLine(), "lines")

        class FileStub:
            def __enter__(self): return self
            def __exit__(self, *a): return False
            def readlines(self): return lines
        cell["file"] = FileStub
        res = f("file.graph")
        if isinstance(res, SymSeq):
            for k, v in blocks_ok(res, n).items():
                c.prove("post:" + k, v, prop=P)
            c.prove("post:last-block-ends-at-EOF", z3.Implies(res.n > 0, lift(res._at(res.n - 1).end) == n), prop=P)
            t = z3.Int("tp")
            c.prove("post:no-block=>no-header-line-in-the-file", z3.Implies(res.n == 0, z3.ForAll([t], z3.Implies(z3.And(t >= 0, t < n), z3.Not(H(t))))), prop=P)
        else:
            t = z3.Int("tp")
            c.prove("post:no-block=>no-header-line-in-the-file", z3.And(len(res) == 0, z3.ForAll([t], z3.Implies(z3.And(t >= 0, t < n), z3.Not(H(t))))), prop=P)

    cell = {}

    def read_graph(block):
        # CONTRACT of read_graph as used here: consumes a slice of the file; returns one graph object per call (or raises ValueError)
        if not isinstance(block, SymSeq):
            raise Unsupported("read_graph called with a concrete list")
        lo = lift(block._at(z3.IntVal(0)).idx)
        return Block(Sym(lo), Sym(lo + block.n))
    g = dict(utils=UtilsStub, read_graph=read_graph, open=lambda *a, **k: cell["file"]())
    outer = dict(inv=inv_outer, prop=P, havoc={"graphs": lambda old: SymSeq.fresh("blocks", SBlock)})
    loops = {0: outer, 1: mk_inner("skip"), 2: mk_inner("hdr"), 3: mk_inner("body")}
    u = Unit(F, "read_graphs", h, globs=g, loops=loops, props=[P],
             abstractions=["lines are opaque; H(t) = 'line t starts with # after lstrip' is an uninterpreted predicate", "open()/readlines() return the abstract list of lines"],
             callee_contracts=["read_graph(block): one graph per block (structure of the block content is its own contract)"])
    return u


# =====================================================================================================================
# read_graph: one block -> one graph.  Token-level abstraction of the lines.
# =====================================================================================================================
SH = z3.Function("is_S_line", INT, BOOL)                 # after lstrip, starts with '#S'
BL = z3.Function("is_blank_line", INT, BOOL)             # strip() == ''
HT = z3.Function("header_text", INT, INT)                # id of the text of a header line (lstrip('#').strip())
SNT, STK = z3.Function("S_line_token_count", INT, INT), z3.Function("S_line_token", INT, INT, INT)
SID = z3.Function("S_line_sequence_id", INT, INT)        # equal ids <=> equal node sequences (a name for tuple(nodes_seq))
ENT, ETK = z3.Function("line_token_count", INT, INT), z3.Function("line_token", INT, INT, INT)
ISI, NV = z3.Function("line_is_an_int_literal", INT, BOOL), z3.Function("line_int_value", INT, INT)
ISF, FV = z3.Function("token_is_a_float_literal", INT, BOOL), z3.Function("token_float_value", INT, REAL)


class Tok(Sym):
    """a token produced by str.split(): stripping it again changes nothing"""
    __slots__ = ()
    def strip(self, *a): return self


class _Text:
    """any string only used inside messages"""
    def __format__(self, spec): return "<line>"
    def __str__(self): return "<line>"


class _Stripped:
    def __init__(self, j): self.j = lift(j)
    def __eq__(self, o):
        if o == "":
            return Sym(BL(self.j))
        raise Unsupported("comparison of a stripped line with %r" % (o,))
    __hash__ = None
    def __bool__(self): return bool(Sym(z3.Not(BL(self.j))))
    def __format__(self, spec): return "<line>"


class _NodesPart:
    def __init__(self, j): self.j = lift(j)
    def __bool__(self): return bool(Sym(SNT(self.j) >= 1))
    def split(self):
        j = self.j
        return TokSeq(SNT(j), lambda q: Tok(STK(j, lift(q))), SInt, "nodes_seq")


class _Rest:
    def __init__(self, j): self.j = j
    def strip(self): return _NodesPart(self.j)


class _HdrText:
    def __init__(self, j): self.j = j
    def strip(self): return Sym(HT(lift(self.j)))


class _LS2:
    def __init__(self, j): self.j = lift(j)
    def startswith(self, s):
        if s == "#":
            return Sym(H(self.j))
        if s == "#S":
            return Sym(SH(self.j))
        raise Unsupported("startswith(%r) on an abstract line" % (s,))
    def __getitem__(self, sl):
        if isinstance(sl, slice) and sl.start == 2 and sl.stop is None and sl.step is None:
            return _Rest(self.j)
        raise Unsupported("slice of an abstract line other than [2:]")
    def lstrip(self, chars=None):
        if chars == "#":
            return _HdrText(self.j)
        raise Unsupported("lstrip(%r) of an abstract line" % (chars,))


class TokSeq(SymSeq):
    """result of split(): unpacking `u, v, w = elements` is allowed where the length is known to be 3"""
    def __iter__(self):
        if core.ctx().decide(self.n == 3, "three-tokens"):
            return iter([self._at(z3.IntVal(0)), self._at(z3.IntVal(1)), self._at(z3.IntVal(2))])
        raise Unsupported("unpacking of a token list whose length is not known to be 3")


class Line2:
    def __init__(self, j): self.idx = j
    def lstrip(self, *a):
        if a:
            raise Unsupported("lstrip with arguments on a raw line")
        return _LS2(self.idx)
    def strip(self): return _Stripped(self.idx)
    def rstrip(self): return _Text()
    def split(self):
        j = lift(self.idx)
        return TokSeq(ENT(j), lambda q: Tok(ETK(j, lift(q))), SInt, "elements")


class SLine2(Shape):
    def sorts(self): return [INT]
    def build(self, it): return Line2(Sym(next(it)))
    def leaves(self, v): return [lift(v.idx)]


def u_read_graph():
    """graphutils.read_graph on an abstract block.  Lines are opaque; what the code can observe of them is a set of uninterpreted functions of
    the line index (header / '#S' / blank tests, token lists, int / float literal tests and values), related by the string facts listed under
    `assumptions`.  ensures: see the clause names."""
    st = {}
    ESH2 = STuple(SInt, SInt)

    def pairs_of(j):
        j = lift(j)
        return SymSeq(z3.If(SNT(j) >= 1, SNT(j) - 1, 0), lambda q: (Sym(STK(j, lift(q))), Sym(STK(j, lift(q) + 1))), ESH2, "subpath")

    class ConstraintList:
        """constraint_subpaths: the list of subpaths, each identified by the '#S' line it came from"""
        def __init__(self, src=None):
            self.src = src if src is not None else SymSeq(z3.IntVal(0), lambda q: Sym(z3.IntVal(0)), SInt, "constraint_sources")
        @property
        def n(self): return self.src.n
        def at(self, q): return lift(self.src._at(q))
        def append(self, edges_list):
            c = core.ctx()
            j = st["cur"]
            q = z3.Int("ap")
            want = pairs_of(j)
            c.prove("row:a-recorded-subpath-is-the-list-of-consecutive-node-pairs-of-its-#S-line",
                    z3.And(lift(edges_list.n) == want.n, z3.ForAll([q], z3.Implies(z3.And(q >= 0, q < want.n), z3.And(
                        lift(edges_list._at(q)[0]) == lift(want._at(q)[0]), lift(edges_list._at(q)[1]) == lift(want._at(q)[1]))))), prop=P, kind="xpost")
            self.src.append(Sym(j))
        def as_seq(self):
            s = self.src
            return SymSeq(s.n, lambda q: pairs_of(lift(s._at(q))), None, "constraint_subpaths")
        def havoc(self):
            return ConstraintList(SymSeq.fresh("constraint_sources", SInt))

    class SeenSet:
        def __init__(self, pred=None): self.pred = pred or (lambda i: z3.BoolVal(False))
        def add(self, key):
            k, old = key.sid, self.pred
            self.pred = lambda i: z3.Or(old(i), i == k)
        def __contains__(self, key): return bool(Sym(self.pred(key.sid)))
        @classmethod
        def fresh(cls):
            f = z3.Function(core.ctx().name("seen"), INT, BOOL)
            return cls(lambda i: f(i))

    class SeqKey:
        def __init__(self, sid): self.sid = sid

    def tuple_(x):
        if isinstance(x, TokSeq) and x.name == "nodes_seq":
            return SeqKey(SID(st["cur"]))
        return tuple(x)

    def zip_(a, b):
        n = z3.If(a.n <= b.n, a.n, b.n)
        return SymSeq(n, lambda q: (a._at(q), b._at(q)), ESH2, "zip")

    def int__(x):
        if isinstance(x, _Stripped):
            if not core.ctx().decide(ISI(x.j), "int-literal"):
                raise ValueError("invalid literal for int()")
            return Sym(NV(x.j))
        from pyvc.rt import BUILTINS
        return BUILTINS["int"](x)

    def float__(x):
        if isinstance(x, Tok):
            if not core.ctx().decide(ISF(x.t), "float-literal"):
                raise ValueError("could not convert string to float")
            return Sym(FV(x.t))
        from pyvc.rt import BUILTINS
        return BUILTINS["float"](x)

    class GState:
        def __init__(self, has, flow): self.has, self.flow = has, flow

    class GStub(Tracked):
        def __init__(self):
            self.graph = {}
            self.st = GState(lambda a, b: z3.BoolVal(False), lambda a, b: z3.RealVal(0))
            self.nn, self.mm = core.ctx().fresh_const("number_of_nodes", INT), core.ctx().fresh_const("number_of_edges", INT)
        def add_edge(self, u, v, flow=None):
            u, v, w = lift(u), lift(v), lift(flow)
            oh, of = self.st.has, self.st.flow
            object.__setattr__(self, "st", GState(lambda a, b: z3.Or(oh(a, b), z3.And(a == u, b == v)), lambda a, b: z3.If(z3.And(a == u, b == v), w, of(a, b))))
        def has_edge(self, u, v): return Sym(self.st.has(lift(u), lift(v)))
        def number_of_nodes(self): return Sym(self.nn)
        def number_of_edges(self): return Sym(self.mm)

    def fresh_gstate(old):
        c = core.ctx()
        hf, ff = z3.Function(c.name("has_edge"), INT, INT, BOOL), z3.Function(c.name("flow_of"), INT, INT, REAL)
        return GState(lambda a, b: hf(a, b), lambda a, b: ff(a, b))

    class NX:
        @staticmethod
        def DiGraph():
            st["G"] = GStub()
            return st["G"]

    WIDTH = z3.Int("width_of_the_graph")

    class _StG:
        def __init__(self, G): st["width_of"] = G
        def get_width(self): return Sym(WIDTH)

    class _StdMod:
        stDiGraph = _StG

    import builtins as _bi

    def import_(name, globals=None, locals=None, fromlist=(), level=0):
        if name == "flowpaths" and fromlist and "stdigraph" in fromlist:
            class M:
                stdigraph = _StdMod
            return M
        return _bi.__import__(name, globals, locals, fromlist, level)
    bdict = dict(_bi.__dict__)
    bdict["__import__"] = import_

    # ---- the block
    def is_edge_line(t): return z3.And(z3.Not(BL(t)), z3.Not(H(t)))
    def edge_line_ok(t): return z3.And(ENT(t) == 3, ISF(ETK(t, 2)))

    class Raw(SymSeq):
        def __getitem__(self, j):
            if not isinstance(j, slice):
                st["cur"] = lift(j)
            return SymSeq.__getitem__(self, j)

    # ---- invariants
    def hdr_state(ns, upto):
        """clauses relating header_lines / constraint_subpaths / subpaths_seen to the lines [0, upto)"""
        hl, C, seen = ns["header_lines"], ns["constraint_subpaths"], ns["subpaths_seen"]
        t, f, q, q2, i = z3.Ints("ht hf hq hq2 hi")
        src = C.at
        return {"header-texts:the-first-recorded-text-is-that-of-the-first-non-#S-header-line":
                    z3.And(z3.Implies(hl.n == 0, z3.ForAll([t], z3.Implies(z3.And(t >= 0, t < upto), SH(t)))),
                           z3.Implies(hl.n > 0, z3.Exists([f], z3.And(f >= 0, f < upto, z3.Not(SH(f)), lift(hl._at(z3.IntVal(0))) == HT(f),
                                                                     z3.ForAll([t], z3.Implies(z3.And(t >= 0, t < f), SH(t))))))),
                "constraints:each-comes-from-a-#S-line-with-at-least-two-nodes,-in-file-order,-no-sequence-twice":
                    z3.And(z3.ForAll([q], z3.Implies(z3.And(q >= 0, q < C.n), z3.And(src(q) >= 0, src(q) < upto, SH(src(q)), SNT(src(q)) >= 2))),
                           z3.ForAll([q, q2], z3.Implies(z3.And(q >= 0, q < q2, q2 < C.n), z3.And(src(q) < src(q2), SID(src(q)) != SID(src(q2)))))),
                "seen-set=the-sequences-of-the-#S-lines-so-far":
                    z3.ForAll([i], seen.pred(i) == z3.Exists([t], z3.And(t >= 0, t < upto, SH(t), SNT(t) >= 1, SID(t) == i))),
                "constraints:every-#S-line-with-at-least-two-nodes-is-represented-by-its-first-occurrence":
                    z3.ForAll([t], z3.Implies(z3.And(t >= 0, t < upto, SH(t), SNT(t) >= 2), z3.Exists([q], z3.And(q >= 0, q < C.n, SID(src(q)) == SID(t), src(q) <= t))))}

    def inv_hdr(ns, seq, done):
        idx, N = lift(ns["idx"]), st["N"]
        t = z3.Int("it")
        cl = {"scan-in-range-and-only-header-lines-passed": z3.And(idx >= 0, idx <= N, z3.ForAll([t], z3.Implies(z3.And(t >= 0, t < idx), H(t))))}
        cl.update(hdr_state(ns, idx))
        return cl

    def enter_blank(ns, it=None):
        st["hp"] = lift(ns["idx"])

    def inv_blank(ns, seq, done):
        idx, N, hp = lift(ns["idx"]), st["N"], st["hp"]
        t = z3.Int("bt")
        return {"only-blank-lines-skipped": z3.And(idx >= hp, idx <= N, z3.ForAll([t], z3.Implies(z3.And(t >= hp, t < idx), BL(t))))}

    def edges_state(G, lo, hi):
        a, b, t, t2 = z3.Ints("ea eb et et2")
        has, flow = G.st.has, G.st.flow
        mine = lambda x: z3.And(x >= lo, x < hi, is_edge_line(x))
        return {"every-edge-line-so-far-is-well-formed-and-its-edge-is-in-the-graph":
                    z3.ForAll([t], z3.Implies(mine(t), z3.And(edge_line_ok(t), has(ETK(t, 0), ETK(t, 1))))),
                "every-edge-of-the-graph-is-listed-and-carries-the-weight-of-its-last-line":
                    z3.ForAll([a, b], z3.Implies(has(a, b), z3.Exists([t], z3.And(mine(t), ETK(t, 0) == a, ETK(t, 1) == b, flow(a, b) == FV(ETK(t, 2)),
                                                                                  z3.ForAll([t2], z3.Implies(z3.And(t2 > t, mine(t2)), z3.Not(z3.And(ETK(t2, 0) == a, ETK(t2, 1) == b))))))))}

    def enter_edges(ns, it=None):
        st["e0"] = lift(ns["idx"])

    def inv_edges(ns, seq, done):
        return edges_state(ns["G"], st["e0"], st["e0"] + lift(done))

    def inv_val_outer(ns, seq, done):
        C, G = ns["constraint_subpaths"], ns["G"]
        q, p = z3.Ints("vq vp")
        return {"constraint-edges-checked-so-far-are-edges-of-the-graph":
                    z3.ForAll([q, p], z3.Implies(z3.And(q >= 0, q < lift(done), p >= 0, p < SNT(C.at(q)) - 1), G.st.has(STK(C.at(q), p), STK(C.at(q), p + 1))))}

    def enter_val_inner(ns, it=None):
        st["vq"] = st["vdone"]

    def inv_val_outer_rec(ns, seq, done):
        st["vdone"] = lift(done)
        return inv_val_outer(ns, seq, done)

    def inv_val_inner(ns, seq, done):
        C, G = ns["constraint_subpaths"], ns["G"]
        j = C.at(st["vq"])
        p = z3.Int("wp")
        return {"edges-of-the-current-constraint-checked-so-far-are-edges-of-the-graph":
                    z3.ForAll([p], z3.Implies(z3.And(p >= 0, p < lift(done)), G.st.has(STK(j, p), STK(j, p + 1))))}

    def h2(c, f):
        N = c.fresh_const("n_block_lines", INT)
        c.assume(N >= 0)
        st.clear()
        st.update(N=N, cur=None)
        t = z3.Int("at")
        c.assume(z3.ForAll([t], z3.And(z3.Implies(SH(t), H(t)), z3.Implies(BL(t), z3.Not(H(t))), BL(t) == (ENT(t) == 0), ENT(t) >= 0, SNT(t) >= 0)))
        t1, t2, pp = z3.Ints("s1 s2 sp")
        c.assume(z3.ForAll([t1, t2], z3.Implies(SID(t1) == SID(t2), z3.And(SNT(t1) == SNT(t2), z3.ForAll([pp], STK(t1, pp) == STK(t2, pp))))))      # equal ids = equal sequences
        raw = Raw(N, lambda j: Line2(Sym(lift(j))), SLine2(), "graph_raw")
        lits = iter(["header_lines", "constraint_subpaths"])

        def new_list():
            which = next(lits, None)
            if which == "header_lines":
                return SymSeq(z3.IntVal(0), lambda q: Sym(z3.IntVal(0)), SInt, "header_lines")
            if which == "constraint_subpaths":
                return ConstraintList()
            raise Unsupported("a third list display in read_graph")
        st["new_list"] = new_list
        raised = None
        try:
            G = f(raw)
        except ValueError as e:
            raised = e
        hp = st.get("hp")                    # end of the header prefix (set when the blank-skipping loop is entered)
        if hp is None:
            raise Unsupported("the blank-skipping loop was never reached")
        cnt = st["cur"] if "G" not in st else st["cnt"]
        a, b, q, p, t2 = z3.Ints("pa pb pq pp pt2")
        if raised is not None:
            if "G" not in st:
                # before the graph exists: missing count line, or a count line that is no integer
                cur = st["cur_at_blank_exit"]
                c.prove("xpost:ValueError-before-any-edge-only-for-a-missing-or-non-integer-vertex-count-line",
                        z3.Or(cur >= N, z3.Not(ISI(cur))), prop=P, kind="xpost")
                return
            G = st["G"]
            e0 = st.get("e0")
            if st.get("validating"):
                C = st["C"]
                c.prove("xpost:ValueError-after-the-edges-only-for-a-constraint-edge-missing-from-the-graph",
                        z3.Exists([q, p], z3.And(q >= 0, q < C.n, p >= 0, p < SNT(C.at(q)) - 1, z3.Not(G.st.has(STK(C.at(q), p), STK(C.at(q), p + 1))))), prop=P, kind="xpost")
                return
            c.prove("xpost:ValueError-among-the-edge-lines-only-for-a-line-without-exactly-three-tokens-or-a-non-numeric-weight",
                    z3.Exists([t], z3.And(t >= e0, t < N, is_edge_line(t), z3.Not(edge_line_ok(t)))), prop=P, kind="xpost")
            return
        # ---- normal return
        cntl = st["cnt"]
        c.prove("post:the-vertex-count-line-is-the-first-non-blank-line-after-the-header-lines-and-is-an-integer",
                z3.And(cntl >= hp, cntl < N, z3.Not(BL(cntl)), ISI(cntl), z3.ForAll([t], z3.Implies(z3.And(t >= hp, t < cntl), BL(t))),
                       z3.ForAll([t], z3.Implies(z3.And(t >= 0, t < hp), H(t))), z3.Or(hp == N, z3.Not(H(hp)))), prop=P)
        gid = G.graph.get("id")
        f0 = z3.Int("f0")
        c.prove("post:id=text-of-the-first-header-line-that-is-not-a-#S-line",
                z3.Implies(z3.Exists([t], z3.And(t >= 0, t < hp, z3.Not(SH(t)))),
                           z3.Exists([f0], z3.And(f0 >= 0, f0 < hp, z3.Not(SH(f0)), z3.ForAll([t], z3.Implies(z3.And(t >= 0, t < f0), SH(t))),
                                                  (lift(gid) == HT(f0)) if isinstance(gid, Sym) and gid.t.sort() == INT else z3.BoolVal(False)))), prop=P)
        C = G.graph.get("constraints")
        c.prove("post:constraints-are-stored-on-the-graph", z3.BoolVal(isinstance(C, ConstraintList)), prop=P)
        if isinstance(C, ConstraintList):
            ns = dict(header_lines=st["hl_final"], constraint_subpaths=C, subpaths_seen=st["seen_final"])
            for k, v in hdr_state(ns, hp).items():
                if k.startswith("constraints:"):
                    c.prove("post:" + k, v, prop=P)
        zero = NV(cntl) == 0
        if st.get("edges_parsed"):
            e0 = st["e0"]
            c.prove("post:edge-parsing-starts-right-after-the-count-line", e0 == cntl + 1, prop=P)
            for k, v in edges_state(G, e0, N).items():
                c.prove("post:" + k, v, prop=P)
            c.prove("post:every-constraint-edge-is-an-edge-of-the-graph",
                    z3.ForAll([q, p], z3.Implies(z3.And(q >= 0, q < C.n, p >= 0, p < SNT(C.at(q)) - 1), G.st.has(STK(C.at(q), p), STK(C.at(q), p + 1)))), prop=P)
            c.prove("post:stored-n-m-w-are-the-graph's-own-counts-and-the-width-of-this-graph",
                    z3.And(lift(G.graph.get("n", Sym(z3.IntVal(-1)))) == G.nn, lift(G.graph.get("m", Sym(z3.IntVal(-1)))) == G.mm,
                           lift(G.graph.get("w", Sym(z3.IntVal(-1)))) == WIDTH, z3.BoolVal(st.get("width_of") is G)), prop=P)
            c.prove("post:edges-are-parsed-unless-the-count-is-0", z3.Not(zero), prop=P)
        else:
            c.prove("post:no-edge-is-parsed-only-for-a-zero-vertex-block", zero, prop=P)
            c.prove("post:a-zero-vertex-block-yields-a-graph-without-edges", z3.ForAll([a, b], z3.Not(G.st.has(a, b))), prop=P)

    # hooks that record the stages
    def enter_blank2(ns, it=None):
        enter_blank(ns, it)
        st["hl_final"], st["seen_final"] = ns["header_lines"], ns["subpaths_seen"]

    def inv_blank2(ns, seq, done):
        st["cur_at_blank_exit"] = lift(ns["idx"])
        st["cnt"] = lift(ns["idx"])
        return inv_blank(ns, seq, done)

    def enter_edges2(ns, it=None):
        enter_edges(ns, it)
        st["edges_parsed"] = True

    def enter_val(ns, it=None):
        st["validating"] = True
        st["C"] = ns["constraint_subpaths"]

    gst = ("G", "st")
    tmp = ("stripped", "nodes_part", "nodes_seq", "seq_key", "edges_list", "line", "elements", "u", "v", "w_str", "w", "subpath")
    loops = {0: dict(inv=inv_hdr, prop=P, keep=tmp,
                     havoc={"header_lines": lambda old: SymSeq.fresh("header_lines", SInt), "constraint_subpaths": lambda old: old.havoc(),
                            "subpaths_seen": lambda old: SeenSet.fresh()}),
             1: dict(inv=inv_blank2, prop=P, on_entry=enter_blank2, keep=tmp),
             2: dict(inv=inv_edges, prop=P, on_entry=enter_edges2, keep=tmp, modifies=[(gst, fresh_gstate)]),
             3: dict(inv=inv_val_outer_rec, prop=P, on_entry=enter_val, keep=tmp, iterable=lambda it: it.as_seq()),
             4: dict(inv=inv_val_inner, prop=P, on_entry=enter_val_inner, keep=tmp)}
    g = dict(utils=UtilsStub, nx=NX, set=lambda: SeenSet(), tuple=tuple_, zip=zip_, int=int__, float=float__, __builtins__=bdict)
    from vf.replay import replay_read_graph
    return Unit(F, "read_graph", h2, globs=g, loops=loops, props=[P], literals=dict(list=lambda: st["new_list"]()), replay=replay_read_graph,
                assumptions=["string facts (trusted): a '#S' line is a header line; a blank line is no header line; strip()=='' iff split() is empty; a token returned by split() is "
                             "unchanged by strip(); a non-empty stripped text has at least one token; int()/float() raise ValueError exactly on non-literals",
                             "SID names the node sequence of a '#S' line: equal ids iff equal sequences (tuple equality)",
                             "networkx: add_edge(u, v, flow=w) adds the edge or overwrites its flow; has_edge reads that relation",
                             "stDiGraph(G).get_width() is the width of G (C09)"],
                abstractions=["lines are opaque: header / '#S' / blank tests, token lists, literal tests and values are uninterpreted functions of the line index",
                              "the graph is its edge relation and flow function; node / edge counts are opaque values of the graph object",
                              "messages (f-strings) are not modelled"])


def all_units():
    return [u_read_graphs(), u_read_graph()]
