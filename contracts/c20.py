"""Sidecar contracts for C20 — graph files are parsed faithfully (structure part).

String primitives are abstract: H(t) := "line t starts with '#' after lstrip" is an uninterpreted predicate over line indexes.
read_graphs is verified against: the blocks handed to read_graph partition the suffix of the file that starts at the first header
line; every block starts at a header line, its header lines form a prefix of the block, it ends at the next header or at EOF;
blocks are contiguous and in file order."""
import z3
from pyvc import core
from pyvc.core import Sym, lift, INT, REAL, BOOL, STR, Unsupported
from pyvc.heap import SymSeq, SInt, SObj, STuple, Shape
from pyvc.rt import Tracked
from pyvc.unit import Unit, NoopLogger

P = "C20"
F = "flowpaths/utils/graphutils.py"
H = z3.Function("is_header_line", INT, BOOL)


class UtilsStub:
    logger = NoopLogger()


class Line:
    """a line of the file, identified by its index; only the header test is observable"""

    def __init__(self, idx=None):
        self.idx = idx

    def lstrip(self, *a):
        return _LS(self.idx)


class _LS:
    def __init__(self, idx):
        self.idx = idx

    def startswith(self, s):
        if s == "#":
            return Sym(H(lift(self.idx)))
        raise Unsupported("startswith(%r) on an abstract line" % (s,))


class SLine(Shape):
    def sorts(self): return [INT]
    def build(self, it): return Line(Sym(next(it)))
    def leaves(self, v): return [lift(v.idx)]


class Block:
    """what read_graph received: lines[start:end]"""

    def __init__(self, start=None, end=None):
        self.start, self.end = start, end


SBlock = SObj(Block, start=SInt, end=SInt)


def u_read_graphs():
    st = {}

    def blocks_ok(B, n):
        """the property clauses over the recorded blocks B (abstract list of Block)"""
        b, t, u = z3.Ints("b t u")
        nb = B.n
        S = lambda q: lift(B._at(q).start)
        E = lambda q: lift(B._at(q).end)
        inb = z3.And(b >= 0, b < nb)
        return {
            "each-block-is-a-nonempty-range-starting-at-a-header-line": z3.ForAll([b], z3.Implies(inb, z3.And(0 <= S(b), S(b) < E(b), E(b) <= n, H(S(b))))),
            "header-lines-form-a-prefix-of-their-block": z3.ForAll([b, t, u], z3.Implies(z3.And(inb, S(b) <= t, t < u, u < E(b), H(u)), H(t))),
            "a-block-ends-at-the-next-header-or-EOF": z3.ForAll([b], z3.Implies(inb, z3.Or(E(b) == n, H(E(b))))),
            "blocks-are-contiguous-and-in-file-order": z3.ForAll([b], z3.Implies(z3.And(b >= 0, b < nb - 1), S(b + 1) == E(b))),
            "lines-before-the-first-block-contain-no-header": z3.Implies(nb > 0, z3.ForAll([t], z3.Implies(z3.And(t >= 0, t < S(0)), z3.Not(H(t))))),
        }

    def inv_outer(ns, seq, done):
        B, i, n = ns["graphs"], lift(ns["i"]), lift(ns["n_lines"])
        t = z3.Int("t0")
        if not isinstance(B, SymSeq):
            nb = z3.IntVal(len(B))
            cl = {}
            if len(B):
                raise Unsupported("concrete non-empty block list")
            E_last = None
        else:
            nb = B.n
            cl = blocks_ok(B, n)
        cl["index-in-range"] = z3.And(i >= 0, i <= n)
        cl["no-header-skipped-before-the-first-block"] = z3.Implies(nb == 0, z3.ForAll([t], z3.Implies(z3.And(t >= 0, t < i), z3.Not(H(t)))))
        if isinstance(B, SymSeq):
            cl["scan-position-is-the-end-of-the-last-block"] = z3.Implies(nb > 0, lift(B._at(nb - 1).end) == i)
        return cl

    def mk_inner(kind):
        # kind: "skip" (loop 1: i over non-headers), "hdr" (loop 2: i over headers), "body" (loop 3: j over non-headers)
        def on_entry(ns, it=None):
            st[kind + ".entry"] = lift(ns["j" if kind == "body" else "i"])

        def inv(ns, seq, done):
            v = lift(ns["j" if kind == "body" else "i"])
            n = lift(ns["n_lines"])
            e = st[kind + ".entry"]
            t = z3.Int("ti")
            body = H(t) if kind == "hdr" else z3.Not(H(t))
            return {"scan-stays-in-range": z3.And(e <= v, v <= n),
                    "lines-passed-so-far-are-%s" % ("headers" if kind == "hdr" else "non-headers"): z3.ForAll([t], z3.Implies(z3.And(t >= e, t < v), body))}
        return dict(inv=inv, on_entry=on_entry, prop=P)

    def h(c, f):
        n = c.fresh_const("n_file_lines", INT)
        c.assume(n >= 0)
        lines = SymSeq(n, lambda j: Line(Sym(lift(j))), SLine(), "lines")

        class FileStub:
            def __enter__(self): return self
            def __exit__(self, *a): return False
            def readlines(self): return lines
        cell["file"] = FileStub
        res = f("file.graph")
        if isinstance(res, SymSeq):
            for k, v in blocks_ok(res, n).items():
                c.prove("post:" + k, v, prop=P)
            c.prove("post:last-block-ends-at-EOF", z3.Implies(res.n > 0, lift(res._at(res.n - 1).end) == n), prop=P)
            t = z3.Int("tp")
            c.prove("post:no-block=>no-header-line-in-the-file", z3.Implies(res.n == 0, z3.ForAll([t], z3.Implies(z3.And(t >= 0, t < n), z3.Not(H(t))))), prop=P)
        else:
            t = z3.Int("tp")
            c.prove("post:no-block=>no-header-line-in-the-file", z3.And(len(res) == 0, z3.ForAll([t], z3.Implies(z3.And(t >= 0, t < n), z3.Not(H(t))))), prop=P)

    cell = {}

    def read_graph(block):
        # CONTRACT of read_graph as used here: consumes a slice of the file; returns one graph object per call (or raises ValueError)
        if not isinstance(block, SymSeq):
            raise Unsupported("read_graph called with a concrete list")
        lo = lift(block._at(z3.IntVal(0)).idx)
        return Block(Sym(lo), Sym(lo + block.n))
    g = dict(utils=UtilsStub, read_graph=read_graph, open=lambda *a, **k: cell["file"]())
    outer = dict(inv=inv_outer, prop=P, havoc={"graphs": lambda old: SymSeq.fresh("blocks", SBlock)})
    loops = {0: outer, 1: mk_inner("skip"), 2: mk_inner("hdr"), 3: mk_inner("body")}
    u = Unit(F, "read_graphs", h, globs=g, loops=loops, props=[P],
             abstractions=["lines are opaque; H(t) = 'line t starts with # after lstrip' is an uninterpreted predicate", "open()/readlines() return the abstract list of lines"],
             callee_contracts=["read_graph(block): one graph per block (structure of the block content is its own contract)"])
    return u


def all_units():
    return [u_read_graphs()]
