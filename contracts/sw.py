"""Sidecar contracts for flowpaths/utils/solverwrapper.py  (property C12, and the status part of C13).

Semantics used throughout ("sigma-semantics"): fix an ARBITRARY assignment sigma of all solver columns.
A variable object is a proxy whose value is its sigma-value, so the real code's `product_var <= ub * binary_var`
evaluates to the z3 Bool "sigma satisfies this row".  The ghost field `store.holds` is the z3 Bool
"sigma satisfies every row and every column bound/integrality added so far".  A helper is *exact* iff
   soundness:     holds'  =>  holds0 /\\ Relation
   completeness:  holds0 /\\ Relation /\\ (witness values for the fresh columns)  =>  holds'
for every sigma, which is what the postconditions below state (fresh columns do not occur in holds0: LM5).
"""
import z3
from pyvc import core
from pyvc.core import Sym, lift, INT, REAL, BOOL, STR, Unsupported
from pyvc.heap import SymSeq, SymMap, SymRange, LazyMap, BigSum, SInt, SReal, SBool, STuple, SObj, Shape, SConst
from pyvc.rt import Tracked, sum_, len_
from pyvc.unit import Unit, NoopLogger

F = "flowpaths/utils/solverwrapper.py"
P = "C12"

A1 = ("A1 highspy API contract (assumed, conformance-probed in the bounded part): addConstr adds exactly the row; addVariables "
      "creates one column per index with the given bounds/type and returns index->variable; changeColsBounds(n, idx, lo, up) sets "
      "lb[idx_j]=lo_j, ub[idx_j]=up_j for distinct idx and nothing else; getCols(n, idx) returns (status, n, cost, lower, upper, nnz); "
      "changeColsCost sets exactly the listed costs; allVariableValues()[c] is the value of column c")
A3 = "A3 Python int = mathematical integer, float = real (IEEE rounding ignored); np.array / astype are identities on sequences"
LM5 = "LM5 coincidence: satisfaction of the previous rows does not depend on columns created afterwards (used to choose witnesses for fresh columns)"


class Var(Sym):
    """stub of highspy.highs_var: sigma-value `t`, column `index`"""
    __slots__ = ("index",)

    def __init__(self, t, index):
        Sym.__init__(self, t)
        self.index = index if isinstance(index, Sym) else Sym(lift(index))


class SVar(Shape):
    """shape of a Var: (value, index)"""

    def __init__(self, vsort=REAL): self.vsort = vsort
    def sorts(self): return [self.vsort, INT]
    def build(self, it): return Var(next(it), Sym(next(it)))
    def leaves(self, v): return [v.t, v.index.t]


class Store(Tracked):
    def __init__(self, name="H0"):
        self.holds = Sym(z3.Bool(core.ctx().name(name)))

    def add(self, row):
        self.holds = Sym(z3.And(self.holds.t, lift(row)))


def as_seq(x, shape=None):
    if isinstance(x, SymSeq):
        return x
    if isinstance(x, LazyMap):
        return x.to_seq()
    if isinstance(x, (list, tuple)):
        xs = list(x)
        if not xs:
            return SymSeq(z3.IntVal(0), lambda j: Sym(z3.IntVal(0)), shape or SInt)
        sh = shape or core_shape(xs[0])
        if isinstance(sh, SVar):
            sh = core_shape(Sym(xs[0].t))           # sums only need the sigma-values

        def at(j):
            j = lift(j)
            r = xs[-1]
            for i in range(len(xs) - 2, -1, -1):
                r = sh.ite(j == i, xs[i], r)
            return r
        return SymSeq(z3.IntVal(len(xs)), at, sh)
    raise Unsupported("as_seq(%r)" % type(x))


def core_shape(v):
    from pyvc.heap import shape_of
    if isinstance(v, Var):
        return SVar(v.t.sort())
    return shape_of(v)


class NP:
    """numpy stub (A3): arrays are the sequences they were built from"""
    int32 = float64 = int64 = None

    @staticmethod
    def array(x, dtype=None):
        if isinstance(x, (list, tuple)) and not isinstance(x, SymSeq):
            return as_seq(x)
        if isinstance(x, LazyMap):
            return x.to_seq()
        return x

    @staticmethod
    def argsort(x, kind=None):
        """a permutation `order` of [0,n) such that x[order] is non-decreasing (exists for every finite sequence)"""
        c = core.ctx()
        x = as_seq(x)
        n = x.n
        perm = z3.Function(c.name("argsort"), INT, INT)
        inv = z3.Function(c.name("argsort_inv"), INT, INT)
        j, a, b = z3.Int(c.name("pj")), z3.Int(c.name("pa")), z3.Int(c.name("pb"))
        c.assume(z3.ForAll([j], z3.Implies(z3.And(j >= 0, j < n), z3.And(perm(j) >= 0, perm(j) < n, inv(perm(j)) == j))))
        c.assume(z3.ForAll([j], z3.Implies(z3.And(j >= 0, j < n), z3.And(inv(j) >= 0, inv(j) < n, perm(inv(j)) == j))))
        c.assume(z3.ForAll([a, b], z3.Implies(z3.And(0 <= a, a < b, b < n), lift(x.at(perm(a))) <= lift(x.at(perm(b))))))
        try:
            # the SAME surjectivity axiom once more, with a trigger on the sorted sequence's own elements: a goal about x[q] then instantiates inv(q)
            # by E-matching instead of waiting for model-based instantiation (which finds it in about two attempts of three, section 7.10b)
            xj = lift(x.at(j))
            c.assume(z3.ForAll([j], z3.Implies(z3.And(j >= 0, j < n), z3.And(inv(j) >= 0, inv(j) < n, perm(inv(j)) == j)), patterns=[xj]))
        except z3.Z3Exception:
            pass
        return SymSeq(n, lambda q: Sym(perm(lift(q))), SInt, "argsort")

    @staticmethod
    def sort(x, kind=None, axis=-1):
        """the values of x in non-decreasing order (x gathered through an argsort permutation)"""
        x = as_seq(x)
        return x[NP.argsort(x, kind=kind)]

    @staticmethod
    def arange(n, dtype=None):
        return SymSeq(lift(n), lambda j: Sym(lift(j)), SInt, "arange")

    @staticmethod
    def full(n, v, dtype=None):
        return SymSeq(lift(n), lambda j: Sym(z3.RealVal(v)) if isinstance(v, (int, float)) else v, SReal, "full")


class HighsStub(Tracked):
    """the assumed highspy contract A1 over ghost state: store.holds, lb/ub/cost arrays, offset, sense, values"""

    def __init__(self, store=None):
        c = core.ctx()
        self.store = store or Store()
        self.lb = z3.Array(c.name("lb0"), INT, REAL)
        self.ub = z3.Array(c.name("ub0"), INT, REAL)
        self.cost = z3.Array(c.name("cost0"), INT, REAL)
        self.lb0, self.ub0, self.cost0 = self.lb, self.ub, self.cost
        self.offset = Sym(z3.Real(c.name("offset0")))
        self.sense = Sym(z3.String(c.name("sense0")))
        self.numVariables = Sym(z3.Int(c.name("ncols")))
        c.assume(self.numVariables.t >= 0)
        self.has_changeColsLower = Sym(z3.Bool(c.name("has_changeColsLower")))
        self.values = z3.Array(c.name("colvalue"), INT, REAL)
        self.optimize_calls = 0
        self.status_name = Sym(z3.String(c.name("highs_status")))
        self.created = []

    # rows
    def addConstr(self, expr, name=""):
        if not (isinstance(expr, Sym) and expr.t.sort() == BOOL):
            raise Unsupported("addConstr of a non-row")
        self.store.add(expr)

    def qsum(self, it):
        return sum_(it)

    # columns
    def _update(self, arr, n, idxs, vals, what):
        c = core.ctx()
        idxs, vals = as_seq(idxs), as_seq(vals, SReal)
        n = lift(n)
        a, b = z3.Int(c.name("a")), z3.Int(c.name("b"))
        c.prove("pre:%s:distinct-columns" % what, z3.ForAll([a, b], z3.Implies(z3.And(0 <= a, a < b, b < n), lift(idxs.at(a)) != lift(idxs.at(b)))), kind="pre")
        c.prove("pre:%s:count-matches" % what, z3.And(n == idxs.n, n == vals.n), kind="pre")
        pos = z3.Function(c.name("pos"), INT, INT)
        jj = z3.Int(c.name("jj"))
        c.assume(z3.ForAll([jj], z3.Implies(z3.And(jj >= 0, jj < n), pos(lift(idxs.at(jj))) == jj)))
        col = z3.Int(c.name("col"))
        hit = z3.And(pos(col) >= 0, pos(col) < n, lift(idxs.at(pos(col))) == col)
        v = lift(vals.at(pos(col)))
        if v.sort() == INT:
            v = z3.ToReal(v)
        return z3.Lambda([col], z3.If(hit, v, arr[col]))

    def changeColsBounds(self, n, idxs, lo, up):
        newlb = self._update(self.lb, n, idxs, lo, "changeColsBounds.lower")
        newub = self._update(self.ub, n, idxs, up, "changeColsBounds.upper")
        self.lb, self.ub = newlb, newub

    def changeColsLower(self, n, idxs, lo):
        self.lb = self._update(self.lb, n, idxs, lo, "changeColsLower")

    def getCols(self, n, idxs):
        idxs = as_seq(idxs)
        c = core.ctx()
        a, b = z3.Int(c.name("ga")), z3.Int(c.name("gb"))
        # A1 (conformance-probed): HiGHS rejects index sets that are not strictly increasing (kError, zero-filled result)
        c.prove("pre:getCols:index-set-strictly-increasing", z3.ForAll([a, b], z3.Implies(z3.And(0 <= a, a < b, b < lift(n)), lift(idxs.at(a)) < lift(idxs.at(b)))), prop=P, kind="pre")
        mk = lambda arr, nm: SymSeq(lift(n), lambda j: Sym(arr[lift(idxs.at(j))]), SReal, nm)
        return ("kOk", n, mk(self.cost, "getCols.cost"), mk(self.lb, "getCols.lower"), mk(self.ub, "getCols.upper"), 0)

    def changeColsCost(self, n, idxs, vals):
        self.cost = self._update(self.cost, n, idxs, vals, "changeColsCost")

    def changeObjectiveOffset(self, v):
        t = lift(v)
        self.offset = Sym(z3.ToReal(t) if t.sort() == INT else t)

    def changeObjectiveSense(self, s):
        self.sense = Sym(lift(s))

    def optimize(self):
        self.optimize_calls += 1

    def getModelStatus(self):
        st = self

        class _S:
            name = st.status_name
        return _S()

    def allVariableValues(self):
        arr = self.values
        return SymSeq(self.numVariables.t, lambda j: Sym(arr[lift(j)]), SReal, "allVariableValues")


class HighspyMod:
    class Highs:
        @staticmethod
        def resetGlobalScheduler(blocking=True):
            """A1: affects only HiGHS' thread pool, no model data"""
            return None

    class ObjSense:
        kMinimize = "kMinimize"
        kMaximize = "kMaximize"

    class HighsVarType:
        kInteger = "kInteger"
        kContinuous = "kContinuous"


class UtilsStub:
    logger = NoopLogger()


BASE_GLOBS = dict(utils=UtilsStub, np=NP, highspy=HighspyMod)


class SW(Tracked):
    """stub `self` for SolverWrapper methods; callees under contract are attached per unit"""

    def __init__(self):
        self.external_solver = "highs"
        self.solver = HighsStub()
        self.store = self.solver.store
        self.tolerance = 1e-9


def add_constraint_stub(self, expr, name=""):
    """contract of SolverWrapper.add_constraint (proved in unit `add_constraint`): holds' == holds /\\ expr"""
    if not (isinstance(expr, Sym) and expr.t.sort() == BOOL):
        raise Unsupported("add_constraint of a non-row")
    self.store.add(expr)


def quicksum_stub(self, it):
    """contract of SolverWrapper.quicksum (proved in unit `quicksum`): the sum of the terms (always recorded as a prefix-sum function)"""
    import types
    if isinstance(it, (list, tuple, types.GeneratorType)):
        it = as_seq(list(it), None)
    return sum_(it)


def induct(c, name, P_, n, prop=None, hyps=(), step_facts=None):
    """proof by induction on j in [0, n] of P_(j) (a z3 Bool builder): emits `lemma` obligations base and step (Skolem j) and
    returns the conclusion  forall j. 0<=j<=n => P_(j)  for the caller to assume (induction principle over naturals: trusted engine rule)."""
    n = lift(n)
    c.prove("lemma:%s:base" % name, z3.Implies(z3.And(*hyps) if hyps else z3.BoolVal(True), P_(z3.IntVal(0))), prop=prop, kind="lemma")
    j = z3.Int(c.name("ind_j"))
    step = z3.Implies(z3.And(j >= 0, j < n, P_(j), *hyps), P_(j + 1))
    if step_facts is None:
        c.prove("lemma:%s:step" % name, step, prop=prop, kind="lemma")
    else:       # explicit instances of the quantified hypotheses at the Skolem index keep the (nonlinear) step query quantifier-free
        c.prove_from("lemma:%s:step" % name, step_facts(j), step, prop=prop, kind="lemma")
    q = z3.Int(c.name("ind_q"))
    return z3.Implies(z3.And(*hyps) if hyps else z3.BoolVal(True), z3.ForAll([q], z3.Implies(z3.And(q >= 0, q <= n), P_(q))))


# ============================================================================================
# units
# ============================================================================================

def u_add_constraint():
    def h(c, f):
        me = SW()
        H0 = me.store.holds.t
        row = Sym(z3.Bool("row"))
        f(me, row, name="r")
        c.prove("post:store-extended-by-exactly-the-row", me.store.holds.t == z3.And(H0, row.t), prop=P)
    return Unit(F, "SolverWrapper.add_constraint", h, globs=BASE_GLOBS, props=[P], assumptions=[A1],
                abstractions=["external_solver fixed to 'highs' (Gurobi not installed; its branches are outside the claims)"])


def u_quicksum():
    def h(c, f):
        me = SW()
        a, b, d = [Sym(z3.Real(n)) for n in "a b d".split()]
        r = f(me, [a, b, d])
        c.prove("post:sum-of-concrete-terms", lift(r) == a.t + b.t + d.t, prop=P)
        me2 = SW()
        seq = SymSeq.fresh("terms", SReal)
        r2 = f(me2, seq)
        bs = c.sums[-1]
        c.prove("post:sum-of-abstract-terms-is-prefix-sum", z3.And(lift(r2) == bs.S(seq.n), bs.S(0) == 0), prop=P)
    return Unit(F, "SolverWrapper.quicksum", h, globs=BASE_GLOBS, props=[P], assumptions=[A1])


def u_binary_product():
    def h(c, f):
        me = SW()
        me.add_constraint = lambda expr, name="": add_constraint_stub(me, expr, name)
        b, cc, p, lb, ub = [Sym(z3.Real(n)) for n in "b c p lb ub".split()]
        H0 = me.store.holds.t
        c.assume(z3.And(z3.Or(b.t == 0, b.t == 1), lb.t <= cc.t, cc.t <= ub.t))      # documented assumptions
        c.cover("requires-satisfiable")
        f(me, b, cc, p, lb, ub, "nm")
        H = me.store.holds.t
        c.prove("post:sound(rows=>product)", z3.Implies(H, z3.And(H0, p.t == b.t * cc.t)), prop=P)
        c.prove("post:complete(product=>rows)", z3.Implies(z3.And(H0, p.t == b.t * cc.t), H), prop=P)

    def replay(ob, model):
        from vf.replay import replay_binary_product
        return replay_binary_product(model)
    return Unit(F, "SolverWrapper.add_binary_continuous_product_constraint", h, globs=BASE_GLOBS, props=[P], replay=replay,
                callee_contracts=["SolverWrapper.add_constraint"])


def add_variables_stub(self, indexes, name_prefix="", lb=0, ub=1, var_type="integer"):
    """contract of SolverWrapper.add_variables for scalar bounds: one fresh column per index, bounds/integrality enter `holds`.
    Returns an abstract map index -> Var.  Recorded in self.created for witness selection (LM5)."""
    c = core.ctx()
    if isinstance(indexes, LazyMap):
        indexes = indexes.to_seq()
    if isinstance(indexes, SymRange):
        indexes = SymSeq(lift(indexes.length()), indexes.at, SInt, "range")
    if not isinstance(indexes, SymSeq):
        indexes = as_seq(list(indexes), SInt)
    if isinstance(lb, (SymSeq, SymMap, dict, list)) or isinstance(ub, (SymSeq, SymMap, dict, list)):
        raise Unsupported("add_variables stub: per-index bounds")
    vsort = INT if var_type == "integer" else REAL
    val = z3.Function(c.name("val_" + str(name_prefix)[:12].replace("<", "").replace(">", "")), INT, vsort)
    col = z3.Function(c.name("col"), INT, INT)
    n = indexes.n
    j = z3.Int(c.name("jv"))
    k0 = z3.Int(c.name("k"))
    idx = lambda jj: lift(indexes.at(jj))
    v = lambda kk: (z3.ToReal(val(kk)) if vsort == INT else val(kk))
    lo, hi = lift(lb), lift(ub)
    lo = z3.ToReal(lo) if lo.sort() == INT else lo
    hi = z3.ToReal(hi) if hi.sort() == INT else hi
    bounds = z3.ForAll([j], z3.Implies(z3.And(j >= 0, j < n), z3.And(lo <= v(idx(j)), v(idx(j)) <= hi)))
    self.store.add(bounds)
    dom = lambda k: z3.Exists([j], z3.And(j >= 0, j < n, idx(j) == lift(k)))
    m = SymMap(SInt, SVar(vsort), dom, lambda k: Var(val(lift(k)), Sym(col(lift(k)))), "vars_" + str(name_prefix)[:10])
    rec = dict(val=val, col=col, indexes=indexes, lb=lo, ub=hi, vsort=vsort, bounds=bounds, map=m)
    if not hasattr(self, "created"):
        object.__setattr__(self, "created", [])
    self.created.append(rec)
    return m


def u_piecewise():
    """add_piecewise_constant_constraint: for pairwise disjoint ranges and x in range t, the rows (with some one-hot z) hold iff y = constants[t]."""
    def mk():
        st = {}

        def inv(ns, seq, done):
            me, d = ns["self"], lift(done)
            i = z3.Int("ip")
            z = st["z"]
            L = lambda q: lift(st["ranges"].at(q)[0])
            U = lambda q: lift(st["ranges"].at(q)[1])
            C = lambda q: lift(st["constants"].at(q))
            x, y, t = st["x"].t, st["y"].t, st["t"]
            H = me.store.holds.t
            sem = z3.ForAll([i], z3.Implies(z3.And(i >= 0, i < d, z(i) == 1), z3.And(L(i) <= x, x <= U(i), y == C(i))))
            wit = z3.And(y == C(t), z3.ForAll([i], z3.Implies(z3.And(i >= 0, i < st["n"]), z(i) == z3.If(i == t, 1, 0))))
            return {"sound(rows=>active-piece-semantics)": z3.Implies(H, z3.And(st["Hpre"], sem)),
                    "complete(intended-assignment=>rows)": z3.Implies(z3.And(st["Hpre"], wit), H)}

        def on_entry(ns, it=None):
            me = ns["self"]
            st["Hpre"] = me.store.holds.t           # the store when the loop is reached
            st["z"] = me.created[-1]["val"]         # sigma-values of the fresh selector columns

        def h(c, f):
            me = SW()
            me.add_constraint = lambda expr, name="": add_constraint_stub(me, expr, name)
            me.quicksum = lambda it: quicksum_stub(me, it)

            def add_vars(indexes, name_prefix="", lb=0, ub=1, var_type="integer"):
                m = add_variables_stub(me, indexes, name_prefix, lb, ub, var_type)
                return m
            me.add_variables = add_vars
            x, y = Var(z3.Real("x"), z3.Int("xcol")), Var(z3.Real("y"), z3.Int("ycol"))
            ranges = SymSeq.fresh("ranges", STuple(SReal, SReal))
            constants = SymSeq.fresh("constants", SReal)
            n = ranges.n
            H0 = me.store.holds.t
            L = lambda q: lift(ranges.at(q)[0])
            U = lambda q: lift(ranges.at(q)[1])
            C = lambda q: lift(constants.at(q))
            a, b = z3.Ints("ra rb")
            t = z3.Int("t")
            samelen = (n == constants.n)
            # documented preconditions: non-overlapping ranges, x inside the union (range t)
            c.assume(z3.ForAll([a], z3.Implies(z3.And(a >= 0, a < n), L(a) <= U(a))))
            c.assume(z3.ForAll([a, b], z3.Implies(z3.And(a >= 0, a < n, b >= 0, b < n, a != b), z3.Or(U(a) < L(b), U(b) < L(a)))))
            c.assume(z3.And(t >= 0, t < n, L(t) <= x.t, x.t <= U(t)))
            c.cover("requires-satisfiable", samelen)
            st.update(ranges=ranges, constants=constants, x=x, y=y, t=t, n=n)
            try:
                f(me, x, y, ranges, constants, "pw")
            except ValueError:
                c.prove("xpost:ValueError-only-if-lengths-differ", z3.Not(samelen), prop=P, kind="xpost")
                return
            c.prove("post:no-error=>lengths-equal", samelen, kind="post")
            H = me.store.holds.t
            z = st["z"]
            i = z3.Int("iz")
            onehot_facts = z3.And(st["Hpre"] == z3.And(H0, me.created[-1]["bounds"], c.sums[-1].S(n) == 1))
            c.prove("aux:store-before-loop-is-H0+bounds+onehot-row", onehot_facts, kind="post")
            # LM3 (one-hot), proved here by induction: if all z(w), w<j, are 0 then the prefix sum S(j) is 0
            S = c.sums[-1]
            c.assume(S.defn())                      # meaning of quicksum: S(j+1) = S(j) + z(j)
            wq = z3.Int("wq")
            allzero = lambda jj: z3.Implies(z3.ForAll([wq], z3.Implies(z3.And(wq >= 0, wq < jj), z(wq) == 0)), S.S(jj) == 0)
            c.assume(induct(c, "LM3-all-zero-prefix-sums-to-zero", allzero, n))
            c.prove("post:sound(rows=>y=constant-of-x's-range)", z3.Implies(H, z3.And(H0, y.t == C(t))), prop=P)
            # completeness: the intended assignment (z = e_t, y = c_t) satisfies all rows; needs sum(e_t) = 1 (LM3')
            wit = z3.And(y.t == C(t), z3.ForAll([i], z3.Implies(z3.And(i >= 0, i < n), z(i) == z3.If(i == t, 1, 0))))
            unit = lambda jj: S.S(jj) == z3.If(jj > t, 1, 0)
            c.assume(induct(c, "LM3'-unit-vector-sums-to-one", unit, n, hyps=[wit]))
            c.prove("post:complete(y=constant-of-x's-range=>rows-satisfiable)", z3.Implies(z3.And(H0, wit), H), prop=P)
        return h, inv, on_entry

    h, inv, on_entry = mk()
    loops = {0: dict(inv=inv, on_entry=on_entry, prop={"sound(rows=>active-piece-semantics)": P, "complete(intended-assignment=>rows)": P},
                     modifies=[(("self", "store", "holds"), None)], keep=("L", "U", "c"))}
    def replay(ob, model):
        from vf.replay import replay_piecewise
        return replay_piecewise(model)
    return Unit(F, "SolverWrapper.add_piecewise_constant_constraint", h, globs=BASE_GLOBS, loops=loops, props=[P], replay=replay,
                assumptions=[A3, LM5, "LM3 one-hot lemma: integers in [0,1] summing to 1 have exactly one 1 (assumed in the VC; Lean-checked in thorough)"],
                callee_contracts=["SolverWrapper.add_constraint", "SolverWrapper.quicksum", "SolverWrapper.add_variables (scalar bounds)"])


class Log2Of:
    def __init__(self, arg): self.arg = arg


def log2_stub(x):
    if isinstance(x, Sym):
        if not core.ctx().decide(lift(x) > 0, "log2-domain"):
            raise ValueError("math domain error")
        return Log2Of(x)
    import math
    return math.log2(x)


def ceil_stub(x):
    """A3: ceil(log2(y)) is the real ceiling of log2 y, i.e. the least n with 2**n >= y (for y >= 1: n >= 0)"""
    if isinstance(x, Log2Of):
        c = core.ctx()
        y = lift(x.arg)
        if not c.decide(y >= 1, "clog2-arg>=1"):
            raise Unsupported("ceil(log2(y)) for y < 1 (negative bit count)")
        n = c.fresh_const("clog2", INT)
        c.assume(n >= 0)
        pn = core.pow2(Sym(n))
        c.assume(z3.ToReal(pn.t) >= y if y.sort() == REAL else pn.t >= y)
        c.assume(z3.Implies(n >= 1, (z3.ToReal(core.POW2(n - 1)) < y) if y.sort() == REAL else (core.POW2(n - 1) < y)))
        c.assume(z3.Implies(n >= 1, core.POW2(n) == 2 * core.POW2(n - 1)))
        return Sym(n)
    import math
    return math.ceil(x)


def pow2_def():
    q = z3.Int("pw_q")
    return z3.ForAll([q], z3.Implies(q >= 0, z3.And(core.POW2(q + 1) == 2 * core.POW2(q), core.POW2(q) >= 1)))


def binary_product_stub(self, binary_var, continuous_var, product_var, lb, ub, name=""):
    """CONTRACT of add_binary_continuous_product_constraint (proved in its own unit): the store is extended by a formula R with
    (b in {0,1} /\\ lb <= c <= ub)  =>  (R <=> p = b*c).  The caller learns nothing else about the rows."""
    c = core.ctx()
    R = z3.Bool(c.name("R_binprod"))
    b, cc, p = lift(binary_var), lift(continuous_var), lift(product_var)
    br = z3.ToReal(b) if b.sort() == INT else b
    lo, hi = lift(lb), lift(ub)
    lo = z3.ToReal(lo) if lo.sort() == INT else lo
    hi = z3.ToReal(hi) if hi.sort() == INT else hi
    c.assume(z3.Implies(z3.And(z3.Or(br == 0, br == 1), lo <= cc, cc <= hi), R == (p == br * cc)))
    self.store.add(R)


def u_integer_product():
    """add_integer_continuous_product_constraint: rows (with some value of the fresh bit / component columns) hold iff p = x*c,
    for integer 0 <= x <= ub, lb <= c <= ub, lb <= 0 <= ub (all call sites pass lb = 0)."""
    st = {}

    def on_entry(ns, it=None):
        me = ns["self"]
        st["Hpre"] = me.store.holds.t
        st["beta"] = me.created[0]["val"]
        st["gamma"] = me.created[1]["val"]

    def all_prod(d):
        i = z3.Int("ib")
        return z3.ForAll([i], z3.Implies(z3.And(i >= 0, i < d), st["gamma"](i) == z3.ToReal(st["beta"](i)) * st["c"]))

    def inv(ns, seq, done):
        H = ns["self"].store.holds.t
        return {"sound(rows=>component_i=bit_i*c)": z3.Implies(H, z3.And(st["Hpre"], all_prod(lift(done)))),
                "complete(component_i=bit_i*c=>rows)": z3.Implies(z3.And(st["Hpre"], all_prod(st["n"])), H)}

    def h(c, f):
        me = SW()
        me.add_constraint = lambda expr, name="": add_constraint_stub(me, expr, name)
        me.quicksum = lambda it: quicksum_stub(me, it)
        me.add_variables = lambda indexes, name_prefix="", lb=0, ub=1, var_type="integer": add_variables_stub(me, indexes, name_prefix, lb, ub, var_type)
        me.add_binary_continuous_product_constraint = lambda **kw: binary_product_stub(me, **kw)
        X, Cv, Pv = Var(z3.Int("X"), z3.Int("Xcol")), Var(z3.Real("C"), z3.Int("Ccol")), Var(z3.Real("P"), z3.Int("Pcol"))
        lb, ub = Sym(z3.Real("lb")), Sym(z3.Real("ub"))
        H0 = me.store.holds.t
        c.assume(z3.And(lb.t <= 0, 0 <= ub.t))                     # requires (call sites: lb = 0, ub >= 0)
        c.assume(z3.And(lb.t <= Cv.t, Cv.t <= ub.t))               # admissible sigma: bounds of the continuous factor
        c.assume(pow2_def())                                       # definition of the spec function pow2
        c.cover("requires-satisfiable")
        st.update(c=Cv.t)
        # n is only known after the first statement; the invariant reads it lazily
        f(me, X, Cv, Pv, lb, ub, "nm")
        H = me.store.holds.t
        beta, gamma = st["beta"], st["gamma"]
        n = me.created[0]["indexes"].n
        Sb, Sg = c.sums[0], c.sums[1]
        c.assume(Sb.defn())
        c.assume(Sg.defn())
        x, cc, p = X.t, Cv.t, Pv.t
        bnd_b, bnd_g = me.created[0]["bounds"], me.created[1]["bounds"]
        # --- lemma LM1 (prod_sum), by induction: if every component is bit*c then S_gamma(j) = c * S_beta(j)
        inst = lambda j: [Sb.step(j), Sg.step(j),
                          z3.Implies(z3.And(all_prod(n), j >= 0, j < n), gamma(j) == z3.ToReal(beta(j)) * cc)]
        lm1 = induct(c, "LM1-sum-of-components=c*sum-of-bits", lambda j: Sg.S(j) == cc * z3.ToReal(Sb.S(j)), n, prop=P, hyps=[all_prod(n)],
                     step_facts=inst)
        c.assume(lm1)
        # --- lemma LM2a (bits_le): 0 <= S_beta(j) <= 2^j - 1 when the bits are 0/1
        lm2 = induct(c, "LM2-bit-sum-bounded-by-2^j-1", lambda j: z3.And(Sb.S(j) >= 0, Sb.S(j) <= core.POW2(j) - 1), n, prop=P, hyps=[bnd_b])
        c.assume(lm2)
        c.prove("post:sound(rows=>p=x*c)", z3.Implies(H, z3.And(H0, p == z3.ToReal(x) * cc)), prop=P)
        c.prove("post:sound(rows=>0<=x<=2^n-1)", z3.Implies(H, z3.And(x >= 0, x <= core.POW2(n) - 1)), prop=P)
        # --- completeness: witnesses for the fresh columns: beta = binary digits of x (top-down remainders), gamma = beta*c
        rem = z3.Function("rem", INT, INT)
        i = z3.Int("iw")
        wit_b = z3.And(rem(n) == x, z3.ForAll([i], z3.Implies(z3.And(i >= 0, i < n), z3.And(
            beta(i) == z3.If(rem(i + 1) >= core.POW2(i), 1, 0), rem(i) == rem(i + 1) - beta(i) * core.POW2(i)))))
        wit_g = all_prod(n)
        adm = z3.And(x >= 0, z3.ToReal(x) <= ub.t, p == z3.ToReal(x) * cc)
        hy = [wit_b, adm]
        lmA = induct(c, "LM2-remainders-in-range(downward)", lambda k: z3.And(rem(n - k) >= 0, rem(n - k) < core.POW2(n - k)), n, prop=P, hyps=hy)
        c.assume(lmA)
        lmB = induct(c, "LM2-bit-sum=remainder", lambda j: Sb.S(j) == rem(j), n, prop=P, hyps=hy)
        c.assume(lmB)
        c.lemma("post:complete(p=x*c=>rows-satisfiable):bit-bounds", z3.Implies(z3.And(*hy), bnd_b), prop=P, kind="post")
        c.lemma("post:complete(p=x*c=>rows-satisfiable):bits-sum-to-x", z3.Implies(z3.And(*hy), Sb.S(n) == x), prop=P, kind="post")
        # component bounds: forall-introduction at a Skolem index with the three instances it needs (keeps the nonlinear query quantifier-free:
        # bit in {0,1}, component = bit*c, lb <= c <= ub, lb <= 0 <= ub  =>  lb <= component <= ub); the generalisation is the engine's rule
        jsk = c.fresh_const("arbitrary_bit", INT)
        inst_bit = z3.Implies(z3.And(*hy), z3.substitute_vars(bnd_b.body(), jsk))
        inst_prod = z3.Implies(wit_g, z3.substitute_vars(wit_g.body(), jsk))
        range_c = z3.And(lb.t <= cc, cc <= ub.t, lb.t <= 0, 0 <= ub.t)
        c.prove_from("post:complete(p=x*c=>rows-satisfiable):component-bounds", [inst_bit, inst_prod, range_c],
                     z3.Implies(z3.And(wit_g, *hy), z3.substitute_vars(bnd_g.body(), jsk)), prop=P, kind="post")
        c.assume(z3.Implies(z3.And(wit_g, *hy), bnd_g))
        c.lemma("post:complete(p=x*c=>rows-satisfiable):components-sum-to-p", z3.Implies(z3.And(wit_g, *hy), Sg.S(n) == p), prop=P, kind="post")
        c.lemma("aux:store-before-loop-is-H0+bounds+bit-row", st["Hpre"] == z3.And(H0, bnd_b, Sb.S(n) == x, bnd_g), kind="post")
        c.prove("post:complete(p=x*c=>rows-satisfiable)", z3.Implies(z3.And(H0, wit_g, *hy), H), prop=P)

    class _N:       # lazy access to n inside the invariant
        pass

    def inv2(ns, seq, done):
        st["n"] = lift(seq.length())
        return inv(ns, seq, done)
    loops = {0: dict(inv=inv2, on_entry=on_entry, modifies=[(("self", "store", "holds"), None)], cut_concrete=True,
                     prop={"sound(rows=>component_i=bit_i*c)": P, "complete(component_i=bit_i*c=>rows)": P})}
    globs = dict(BASE_GLOBS, log2=log2_stub, ceil=ceil_stub)
    def replay(ob, model):
        from vf.replay import replay_integer_product
        return replay_integer_product(model)
    return Unit(F, "SolverWrapper.add_integer_continuous_product_constraint", h, globs=globs, loops=loops, props=[P], replay=replay,
                assumptions=[A3, LM5, "clog2: ceil(log2(y)) for y>=1 is the least n>=0 with 2**n >= y (float log2 treated as exact; swept exhaustively in the bounded part)",
                             "induction principle over naturals (engine rule `induct`)"],
                callee_contracts=["SolverWrapper.add_constraint", "SolverWrapper.quicksum", "SolverWrapper.add_variables (scalar bounds)",
                                  "SolverWrapper.add_binary_continuous_product_constraint"])


# ---------------------------------------------------------------------------------------------
# bound queue

def _queues(me, c):
    """arbitrary queue contents satisfying the class invariant Inv_SW: aligned lengths, distinct columns inside each queue"""
    me._pending_fix_vars = SymSeq.fresh("fixq.vars", SVar(REAL))
    me._pending_fix_vals = SymSeq.fresh("fixq.vals", SReal, n=me._pending_fix_vars.n)
    me._pending_lb_vars = SymSeq.fresh("lbq.vars", SVar(REAL))
    me._pending_lb_vals = SymSeq.fresh("lbq.vals", SReal, n=me._pending_lb_vars.n)
    a, b = z3.Ints("qa qb")
    Fi = lambda q: me._pending_fix_vars._at(q).index.t
    Li = lambda q: me._pending_lb_vars._at(q).index.t
    nf, nl = me._pending_fix_vars.n, me._pending_lb_vars.n
    c.assume(z3.ForAll([a, b], z3.Implies(z3.And(0 <= a, a < b, b < nf), Fi(a) != Fi(b))))
    c.assume(z3.ForAll([a, b], z3.Implies(z3.And(0 <= a, a < b, b < nl), Li(a) != Li(b))))
    return Fi, Li, nf, nl


def u_queue_fix():
    def h(c, f):
        me = SW()
        _queues(me, c)
        old = {k: getattr(me, k).copy() for k in ("_pending_fix_vars", "_pending_fix_vals", "_pending_lb_vars", "_pending_lb_vals")}
        v = Var(z3.Real("v"), z3.Int("vcol"))
        val = Sym(z3.Real("val"))
        f(me, v, val)
        j = z3.Int("jq")
        n0 = old["_pending_fix_vars"].n
        c.prove("post:fix-queue-extended-by-(var,value)", z3.And(
            me._pending_fix_vars.n == n0 + 1, me._pending_fix_vals.n == n0 + 1,
            me._pending_fix_vars._at(n0).index.t == v.index.t, lift(me._pending_fix_vals._at(n0)) == val.t,
            z3.ForAll([j], z3.Implies(z3.And(j >= 0, j < n0), z3.And(
                me._pending_fix_vars._at(j).index.t == old["_pending_fix_vars"]._at(j).index.t,
                lift(me._pending_fix_vals._at(j)) == lift(old["_pending_fix_vals"]._at(j)))))), prop=P)
        c.prove("post:lb-queue-untouched", z3.And(me._pending_lb_vars.n == old["_pending_lb_vars"].n, me._pending_lb_vals.n == old["_pending_lb_vals"].n), prop=P)
    return Unit(F, "SolverWrapper.queue_fix_variable", h, globs=BASE_GLOBS, props=[P])


def u_queue_lb():
    def h(c, f):
        me = SW()
        _queues(me, c)
        old = {k: getattr(me, k).copy() for k in ("_pending_fix_vars", "_pending_fix_vals", "_pending_lb_vars", "_pending_lb_vals")}
        v = Var(z3.Real("v"), z3.Int("vcol"))
        val = Sym(z3.Int("ival"))
        f(me, v, val)
        j = z3.Int("jq")
        n0 = old["_pending_lb_vars"].n
        c.prove("post:lb-queue-extended-by-(var,value)", z3.And(
            me._pending_lb_vars.n == n0 + 1, me._pending_lb_vals.n == n0 + 1,
            me._pending_lb_vars._at(n0).index.t == v.index.t, lift(me._pending_lb_vals._at(n0)) == z3.ToReal(val.t),
            z3.ForAll([j], z3.Implies(z3.And(j >= 0, j < n0), z3.And(
                me._pending_lb_vars._at(j).index.t == old["_pending_lb_vars"]._at(j).index.t,
                lift(me._pending_lb_vals._at(j)) == lift(old["_pending_lb_vals"]._at(j)))))), prop=P)
        c.prove("post:fix-queue-untouched", z3.And(me._pending_fix_vars.n == old["_pending_fix_vars"].n, me._pending_fix_vals.n == old["_pending_fix_vals"].n), prop=P)
    return Unit(F, "SolverWrapper.queue_set_var_lower_bound", h, globs=BASE_GLOBS, props=[P])


def bounds_post(c, hs, Fi, Li, Fv, Lv, nf, nl, lb0, ub0, tag=""):
    """the property clause `queued bound changes set exactly the requested bounds` over column arrays"""
    p, q, col = z3.Int("bp"), z3.Int("bq"), z3.Int("bcol")
    lb1, ub1 = hs.lb, hs.ub
    infix = lambda cc: z3.Exists([p], z3.And(p >= 0, p < nf, Fi(p) == cc))
    inlb = lambda cc: z3.Exists([q], z3.And(q >= 0, q < nl, Li(q) == cc))
    c.prove(tag + "post:queued-lower-bound=>lb=value", z3.ForAll([q], z3.Implies(z3.And(q >= 0, q < nl), lb1[Li(q)] == Lv(q))), prop=P + ",C05")
    c.prove(tag + "post:queued-lower-bound=>ub-unchanged", z3.ForAll([q], z3.Implies(z3.And(q >= 0, q < nl, z3.Not(infix(Li(q)))), ub1[Li(q)] == ub0[Li(q)])), prop=P + ",C05")
    c.prove(tag + "post:queued-fix=>ub=value", z3.ForAll([p], z3.Implies(z3.And(p >= 0, p < nf), ub1[Fi(p)] == Fv(p))), prop=P + ",C05")
    c.prove(tag + "post:queued-fix=>lb=value(unless-also-lb-queued)", z3.ForAll([p], z3.Implies(z3.And(p >= 0, p < nf, z3.Not(inlb(Fi(p)))), lb1[Fi(p)] == Fv(p))), prop=P + ",C05")
    c.prove(tag + "post:other-columns-unchanged", z3.ForAll([col], z3.Implies(z3.And(z3.Not(infix(col)), z3.Not(inlb(col))), z3.And(lb1[col] == lb0[col], ub1[col] == ub0[col]))), prop=P + ",C05")


def u_apply_pending():
    def h(c, f):
        import sys
        import types
        me = SW()
        Fi, Li, nf, nl = _queues(me, c)
        Fv = lambda q, s=me._pending_fix_vals: lift(s._at(q))
        Lv = lambda q, s=me._pending_lb_vals: lift(s._at(q))
        fv_at, lv_at = me._pending_fix_vals._at, me._pending_lb_vals._at
        fi_at, li_at = me._pending_fix_vars._at, me._pending_lb_vars._at
        Fi = lambda q: fi_at(q).index.t
        Li = lambda q: li_at(q).index.t
        Fv = lambda q: lift(fv_at(q))
        Lv = lambda q: lift(lv_at(q))
        hs = me.solver
        lb0, ub0 = hs.lb, hs.ub
        fake = types.ModuleType("numpy")
        fake.array, fake.int32, fake.float64, fake.argsort, fake.sort = NP.array, None, None, NP.argsort, NP.sort
        saved = sys.modules.get("numpy")
        sys.modules["numpy"] = fake           # the function does `import numpy as np` locally
        raised = None
        try:
            f(me)
        except Exception as e:              # noqa
            raised = e
        finally:
            if saved is not None:
                sys.modules["numpy"] = saved
            else:
                sys.modules.pop("numpy", None)
        c.prove("post:no-exception", raised is None, kind="post")
        c.prove("post:queues-empty-on-exit", z3.And(me._pending_fix_vars.n == 0, me._pending_fix_vals.n == 0,
                                                    me._pending_lb_vars.n == 0, me._pending_lb_vals.n == 0), prop=P)
        if raised is None:
            bounds_post(c, hs, Fi, Li, Fv, Lv, nf, nl, lb0, ub0)

    def hasattr_(o, name):
        if isinstance(o, HighsStub) and name == "changeColsLower":
            return bool(o.has_changeColsLower)
        return hasattr(o, name)

    def replay(ob, model):
        from vf.replay import replay_bound_queue
        return replay_bound_queue(model)
    return Unit(F, "SolverWrapper._apply_pending_bound_updates", h, globs=dict(BASE_GLOBS, hasattr=hasattr_), props=[P, "C05"], replay=replay,
                assumptions=[A1, "Inv_SW: columns inside one queue are pairwise distinct (HiGHS rejects index sets with duplicates)",
                             "both outcomes of hasattr(solver, 'changeColsLower') are explored (installed highspy 1.15.1 lacks it)"])


def apply_pending_stub(me):
    """CONTRACT of _apply_pending_bound_updates used by `optimize`: havoc bounds, assume the five bound clauses, clear the queues"""
    c = core.ctx()
    hs = me.solver
    fi_at, li_at, fv_at, lv_at = me._pending_fix_vars._at, me._pending_lb_vars._at, me._pending_fix_vals._at, me._pending_lb_vals._at
    nf, nl = me._pending_fix_vars.n, me._pending_lb_vars.n
    Fi, Li, Fv, Lv = (lambda q: fi_at(q).index.t), (lambda q: li_at(q).index.t), (lambda q: lift(fv_at(q))), (lambda q: lift(lv_at(q)))
    lb0, ub0 = hs.lb, hs.ub
    hs.lb, hs.ub = z3.Array(c.name("lb_after"), INT, REAL), z3.Array(c.name("ub_after"), INT, REAL)
    sub = core.Ctx()
    sub.fresh = c.fresh
    bounds_post(sub, hs, Fi, Li, Fv, Lv, nf, nl, lb0, ub0)
    for o in sub.obls:
        c.assume(o.goal)
    for q in (me._pending_fix_vars, me._pending_fix_vals, me._pending_lb_vars, me._pending_lb_vals):
        q.clear()


def u_optimize():
    def mk(inf_limit):
        def h(c, f):
            me = SW()
            _queues(me, c)
            fi_at, li_at, fv_at, lv_at = me._pending_fix_vars._at, me._pending_lb_vars._at, me._pending_fix_vals._at, me._pending_lb_vals._at
            nf, nl = me._pending_fix_vars.n, me._pending_lb_vars.n
            Fi, Li, Fv, Lv = (lambda q: fi_at(q).index.t), (lambda q: li_at(q).index.t), (lambda q: lift(fv_at(q))), (lambda q: lift(lv_at(q)))
            hs = me.solver
            lb0, ub0 = hs.lb, hs.ub
            me.did_timeout = Sym(z3.Bool("did_timeout0"))
            me.time_limit = float("inf") if inf_limit else Sym(z3.Real("time_limit"))
            me.use_also_custom_timeout = Sym(z3.Bool("use_custom"))
            me._apply_pending_bound_updates = lambda: apply_pending_stub(me)
            seen = {}

            def solve():
                seen["lb"], seen["ub"], seen["dt"] = hs.lb, hs.ub, me.did_timeout
                seen["queues_empty"] = z3.And(me._pending_fix_vars.n == 0, me._pending_lb_vars.n == 0)
                seen["n"] = seen.get("n", 0) + 1
            hs.optimize = solve

            def run_with_timeout(t, func):
                func()
            me._run_with_timeout = run_with_timeout
            f(me)
            tag = "inf:" if inf_limit else "finite:"
            c.prove(tag + "post:solver-invoked-exactly-once", seen.get("n", 0) == 1, prop=P)
            if seen.get("n"):
                c.prove(tag + "post:timeout-flag-reset-before-solve", z3.Not(lift(seen["dt"])), prop="C13")
                c.prove(tag + "post:queues-flushed-before-solve", seen["queues_empty"], prop=P)
                hs.lb, hs.ub = seen["lb"], seen["ub"]
                bounds_post(c, hs, Fi, Li, Fv, Lv, nf, nl, lb0, ub0, tag=tag + "at-solve:")
        return h
    return [Unit(F, "SolverWrapper.optimize", mk(inf), globs=dict(BASE_GLOBS), props=[P, "C13"], name="%s:SolverWrapper.optimize[%s]" % (F, "time_limit=inf" if inf else "finite time_limit"),
                 callee_contracts=["SolverWrapper._apply_pending_bound_updates", "SolverWrapper._run_with_timeout (calls func once; SIGALRM handler may set did_timeout)"],
                 assumptions=["_run_with_timeout invokes the solver exactly once (signal handling is outside the subset: A3 single-threaded)"])
            for inf in (True, False)]


def u_fix_variable():
    def h(c, f):
        me = SW()
        hs = me.solver
        lb0, ub0 = hs.lb, hs.ub
        v = Var(z3.Real("v"), z3.Int("vcol"))
        val = Sym(z3.Int("ival"))
        f(me, v, val)
        col = z3.Int("col")
        c.prove("post:lb=ub=value", z3.And(hs.lb[v.index.t] == z3.ToReal(val.t), hs.ub[v.index.t] == z3.ToReal(val.t)), prop=P)
        c.prove("post:other-columns-unchanged", z3.ForAll([col], z3.Implies(col != v.index.t, z3.And(hs.lb[col] == lb0[col], hs.ub[col] == ub0[col]))), prop=P)
    return Unit(F, "SolverWrapper.fix_variable", h, globs=BASE_GLOBS, props=[P], assumptions=[A1])


# ---------------------------------------------------------------------------------------------
# objective

class LinExpr:
    """stub of highspy.highs_linear_expression (A1): `bounds` is None for a plain expression; unique_elements() lists every column
    with a (merged) coefficient exactly once; ghost `coef` gives the coefficient of each column"""

    def __init__(self, c, ncols, inequality=False):
        self.coef = z3.Function(c.name("coef"), INT, REAL)
        self.idxs = SymSeq.fresh("expr.idxs", SInt)
        n = self.idxs.n
        coef, idxs = self.coef, self.idxs
        self.vals = SymSeq(n, lambda j: Sym(coef(lift(idxs._at(j)))), SReal, "expr.vals")
        a, b, col = z3.Ints("ea eb ecol")
        at = lambda j: lift(idxs._at(j))
        c.assume(z3.ForAll([a, b], z3.Implies(z3.And(0 <= a, a < b, b < n), at(a) != at(b))))
        c.assume(z3.ForAll([a], z3.Implies(z3.And(0 <= a, a < n), z3.And(at(a) >= 0, at(a) < ncols))))
        pos = z3.Function(c.name("epos"), INT, INT)
        c.assume(z3.ForAll([col], z3.Implies(coef(col) != 0, z3.And(pos(col) >= 0, pos(col) < n, at(pos(col)) == col))))
        self.constant = Sym(z3.Real(c.name("expr.constant")))
        self.bounds = (0, 1) if inequality else None

    def unique_elements(self):
        return self.idxs, self.vals


def u_set_objective():
    def mk(which):
        def h(c, f):
            me = SW()
            hs = me.solver
            called = []
            hs.set_objective_without_solving = lambda expr, sense="minimize": called.append((expr, sense))
            expr = LinExpr(c, hs.numVariables.t)
            if which == "valid":
                sense = Sym(z3.String("sense"))
                c.assume(z3.Or(*[sense.t == z3.StringVal(x) for x in ("minimize", "min", "maximize", "max")]))
                f(me, expr, sense)
                c.prove("post:delegates-once-with-same-expression-and-sense", len(called) == 1 and called[0][0] is expr and called[0][1] is sense, prop=P)
                c.prove("post:records-sense", lift(me.optimization_sense) == sense.t, prop=P)
            else:
                sense = Sym(z3.String("sense"))
                c.assume(z3.And(*[sense.t != z3.StringVal(x) for x in ("minimize", "min", "maximize", "max")]))
                try:
                    f(me, expr, sense)
                    c.prove("xpost:invalid-sense-raises-ValueError", False, prop=P, kind="xpost")
                except ValueError:
                    c.prove("xpost:invalid-sense-raises-ValueError", True, prop=P, kind="xpost")
                    c.prove("xpost:objective-untouched-on-error", len(called) == 0, prop=P, kind="xpost")
        return h
    return [Unit(F, "SolverWrapper.set_objective", mk(w), globs=BASE_GLOBS, props=[P], name="%s:SolverWrapper.set_objective[%s sense]" % (F, w),
                 callee_contracts=["HighsCustom.set_objective_without_solving"]) for w in ("valid", "invalid")]


def u_set_objective_without_solving():
    def h(c, f):
        hs = HighsStub()
        ncols = hs.numVariables.t
        cost0, off0, sense0 = hs.cost, hs.offset, hs.sense
        expr = LinExpr(c, ncols)
        sense = Sym(z3.String("sense"))
        valid = z3.Or(*[sense.t == z3.StringVal(x) for x in ("minimize", "min", "maximize", "max")])
        try:
            f(hs, expr, sense)
        except ValueError:
            c.prove("xpost:ValueError-only-for-invalid-sense", z3.Not(valid), prop=P, kind="xpost")
            return
        col = z3.Int("col")
        c.prove("post:no-error=>sense-valid", valid, prop=P)
        c.prove("post:cost-vector-is-exactly-the-new-expression(previous objective fully replaced)",
                z3.ForAll([col], z3.Implies(z3.And(col >= 0, col < ncols), hs.cost[col] == expr.coef(col))), prop=P)
        c.prove("post:offset-is-the-constant", hs.offset.t == expr.constant.t, prop=P)
        c.prove("post:sense-as-requested", hs.sense.t == z3.If(z3.Or(sense.t == z3.StringVal("minimize"), sense.t == z3.StringVal("min")),
                                                                z3.StringVal("kMinimize"), z3.StringVal("kMaximize")), prop=P)

    def h_ineq(c, f):
        hs = HighsStub()
        cost0 = hs.cost
        expr = LinExpr(c, hs.numVariables.t, inequality=True)
        try:
            f(hs, expr, "minimize")
            c.prove("xpost:inequality-objective-rejected", False, prop=P, kind="xpost")
        except Exception:
            col = z3.Int("col")
            c.prove("xpost:inequality-objective-rejected", True, prop=P, kind="xpost")
            c.prove("xpost:cost-untouched", z3.ForAll([col], hs.cost[col] == cost0[col]), prop=P, kind="xpost")
    g = dict(BASE_GLOBS)
    return [Unit(F, "HighsCustom.set_objective_without_solving", h, globs=g, props=[P], super_obj=lambda o: o, assumptions=[A1]),
            Unit(F, "HighsCustom.set_objective_without_solving", h_ineq, globs=g, props=[P], super_obj=lambda o: o,
                 name=F + ":HighsCustom.set_objective_without_solving[inequality]")]


# ---------------------------------------------------------------------------------------------
# reading values back

def u_get_values():
    def mk(binary):
        st = {}

        def inv(ns, seq, done):
            res = ns["result"]
            d = lift(done)
            j = z3.Int("jr")
            kk = z3.Int("kr")
            m = res.sym if getattr(res, "sym", None) is not None else None
            if m is None:
                return {"result-empty-before-first-iteration": d == 0}
            items = st["items"]
            key = lambda q: lift(items._at(q)[0])
            var = lambda q: items._at(q)[1]
            val = lambda q: st["values"][var(q).index.t]
            got = lambda q: (z3.ToReal(lift(m._val(Sym(key(q))))) if lift(m._val(Sym(key(q)))).sort() == INT else lift(m._val(Sym(key(q)))))
            tol = z3.RealVal("1e-9")
            ok = (lambda q: z3.And(z3.Or(got(q) == 0, got(q) == 1), val(q) - got(q) <= tol, got(q) - val(q) <= tol)) if binary else (lambda q: got(q) == val(q))
            return {"keys-so-far-are-in-result-with-their-column-value": z3.ForAll([j], z3.Implies(z3.And(j >= 0, j < d), z3.And(m._dom(Sym(key(j))), ok(j)))),
                    "result-has-no-other-key": z3.ForAll([kk], z3.Implies(m._dom(Sym(kk)), z3.Exists([j], z3.And(j >= 0, j < d, key(j) == kk))))}

        def rt_round(x):
            from pyvc.rt import ROUND
            return ROUND(x)

        def havoc_result(old):
            from pyvc.rt import SymDict
            d = SymDict()
            d.sym = SymMap.fresh("result", SInt, SInt if binary else SReal)
            return d

        def h(c, f):
            me = SW()
            hs = me.solver
            ncols = hs.numVariables.t
            variables = SymMap.fresh("variables", SInt, SVar(REAL))
            kq = z3.Int("kq")
            c.assume(z3.ForAll([kq], z3.Implies(variables._dom(Sym(kq)), z3.And(variables._val(Sym(kq)).index.t >= 0, variables._val(Sym(kq)).index.t < ncols))))
            me.get_all_variable_values = lambda: hs.allVariableValues()
            st["items"] = variables.items()
            variables.items = lambda: st["items"]
            st["values"] = hs.values
            try:
                res = f(me, variables, binary)
            except Exception as e:
                if not binary:
                    c.prove("xpost:no-exception-without-binary-check", False, prop=P, kind="xpost")
                else:
                    c.note("binary_values=True: exception path (a value not within tolerance of 0/1) reached")
                    c.prove("xpost:exception-is-the-non-binary-report", "non-binary" in str(e), kind="xpost")
                return
            m = res.sym if getattr(res, "sym", None) is not None else None
            n = st["items"].n
            if m is None:
                c.prove("post:empty-result-only-for-empty-request", n == 0, prop=P)
                return
            k = z3.Int("kget")
            vk = lift(m._val(Sym(k)))
            vk = z3.ToReal(vk) if vk.sort() == INT else vk
            colval = hs.values[variables._val(Sym(k)).index.t]
            # instantiate the enumeration's inverse for the arbitrary key k
            variables.index_of(Sym(k))
            c.prove("post:result-keys=exactly-the-keys-asked-for", m._dom(Sym(k)) == variables._dom(Sym(k)), prop=P)
            if binary:
                tol = z3.RealVal("1e-9")
                c.prove("post:value=rounded-column-value-within-tolerance", z3.Implies(variables._dom(Sym(k)), z3.And(
                    z3.Or(vk == 0, vk == 1), colval - vk <= tol, vk - colval <= tol)), prop=P)
            else:
                c.prove("post:value=value-of-the-variable's-column", z3.Implies(variables._dom(Sym(k)), vk == colval), prop=P)
        loops = {1: dict(inv=inv, havoc={"result": havoc_result}, keep=("value",),
                         prop={"keys-so-far-are-in-result-with-their-column-value": P, "result-has-no-other-key": P})}
        return Unit(F, "SolverWrapper.get_values", h, globs=dict(BASE_GLOBS), loops=loops, props=[P],
                    name="%s:SolverWrapper.get_values[binary_values=%s]" % (F, binary), assumptions=[A1, A3, "mapping input (`.items()`); the iterable-of-pairs path runs through a generator and is left to the bounded part"])
    return [mk(False), mk(True)]


# ---------------------------------------------------------------------------------------------
# status

def u_status():
    def h(c, f):
        me = SW()
        me.did_timeout = Sym(z3.Bool("did_timeout"))
        flag0 = me.did_timeout
        r = f(me)
        if isinstance(r, str):
            r = Sym(z3.StringVal(r))
        c.prove("post:custom-timeout=>kTimeLimit", z3.Implies(flag0.t, r.t == z3.StringVal("kTimeLimit")), prop="C13")
        c.prove("post:otherwise-solver-status-name", z3.Implies(z3.Not(flag0.t), r.t == me.solver.status_name.t), prop="C13")
        # frame: a status query is read-only, so every later query of the same run reports the same status (callers query several times)
        c.prove("post:status-query-leaves-the-timeout-flag-unchanged", lift(me.did_timeout) == flag0.t, prop="C13")
        r2 = f(me)
        if isinstance(r2, str):
            r2 = Sym(z3.StringVal(r2))
        c.prove("post:repeated-status-queries-agree", r2.t == r.t, prop="C13")

    def h2(c, f):
        me = SW()
        me.did_timeout = Sym(z3.Bool("did_timeout"))
        f(me, 14, None)
        c.prove("post:handler-sets-flag", me.did_timeout is True or lift(me.did_timeout) == z3.BoolVal(True), prop="C13")
    return [Unit(F, "SolverWrapper.get_model_status", h, globs=BASE_GLOBS, props=["C13"]),
            Unit(F, "SolverWrapper._timeout_handler", h2, globs=BASE_GLOBS, props=["C13"])]


def all_units():
    out = []
    for f in (u_add_constraint, u_quicksum, u_binary_product, u_piecewise, u_integer_product, u_queue_fix, u_queue_lb, u_apply_pending,
              u_optimize, u_fix_variable, u_set_objective, u_set_objective_without_solving, u_get_values, u_status):
        r = f()
        out += r if isinstance(r, list) else [r]
    return out
