"""Sidecar contracts for flowpaths/utils/solverwrapper.py  (property C12, and the status part of C13).

Semantics used throughout ("sigma-semantics"): fix an ARBITRARY assignment sigma of all solver columns.
A variable object is a proxy whose value is its sigma-value, so the real code's `product_var <= ub * binary_var`
evaluates to the z3 Bool "sigma satisfies this row".  The ghost field `store.holds` is the z3 Bool
"sigma satisfies every row and every column bound/integrality added so far".  A helper is *exact* iff
   soundness:     holds'  =>  holds0 /\\ Relation
   completeness:  holds0 /\\ Relation /\\ (witness values for the fresh columns)  =>  holds'
for every sigma, which is what the postconditions below state (fresh columns do not occur in holds0: LM5).
"""
import z3
from pyvc import core
from pyvc.core import Sym, lift, INT, REAL, BOOL, STR, Unsupported
from pyvc.heap import SymSeq, SymMap, SymRange, LazyMap, BigSum, SInt, SReal, SBool, STuple, SObj, Shape, SConst
from pyvc.rt import Tracked, sum_, len_
from pyvc.unit import Unit, NoopLogger

F = "flowpaths/utils/solverwrapper.py"
P = "C12"

A1 = ("A1 highspy API contract (assumed, conformance-probed in the bounded part): addConstr adds exactly the row; addVariables "
      "creates one column per index with the given bounds/type and returns index->variable; changeColsBounds(n, idx, lo, up) sets "
      "lb[idx_j]=lo_j, ub[idx_j]=up_j for distinct idx and nothing else; getCols(n, idx) returns (status, n, cost, lower, upper, nnz); "
      "changeColsCost sets exactly the listed costs; allVariableValues()[c] is the value of column c")
A3 = "A3 Python int = mathematical integer, float = real (IEEE rounding ignored); np.array / astype are identities on sequences"
LM5 = "LM5 coincidence: satisfaction of the previous rows does not depend on columns created afterwards (used to choose witnesses for fresh columns)"


class Var(Sym):
    """stub of highspy.highs_var: sigma-value `t`, column `index`"""
    __slots__ = ("index",)

    def __init__(self, t, index):
        Sym.__init__(self, t)
        self.index = index if isinstance(index, Sym) else Sym(lift(index))


class SVar(Shape):
    """shape of a Var: (value, index)"""

    def __init__(self, vsort=REAL): self.vsort = vsort
    def sorts(self): return [self.vsort, INT]
    def build(self, it): return Var(next(it), Sym(next(it)))
    def leaves(self, v): return [v.t, v.index.t]


class Store(Tracked):
    def __init__(self, name="H0"):
        self.holds = Sym(z3.Bool(core.ctx().name(name)))

    def add(self, row):
        self.holds = Sym(z3.And(self.holds.t, lift(row)))


def as_seq(x, shape=None):
    if isinstance(x, SymSeq):
        return x
    if isinstance(x, LazyMap):
        return x.to_seq()
    if isinstance(x, (list, tuple)):
        xs = list(x)
        if not xs:
            return SymSeq(z3.IntVal(0), lambda j: Sym(z3.IntVal(0)), shape or SInt)
        sh = shape or core_shape(xs[0])

        def at(j):
            j = lift(j)
            r = xs[-1]
            for i in range(len(xs) - 2, -1, -1):
                r = sh.ite(j == i, xs[i], r)
            return r
        return SymSeq(z3.IntVal(len(xs)), at, sh)
    raise Unsupported("as_seq(%r)" % type(x))


def core_shape(v):
    from pyvc.heap import shape_of
    if isinstance(v, Var):
        return SVar(v.t.sort())
    return shape_of(v)


class NP:
    """numpy stub (A3): arrays are the sequences they were built from"""
    int32 = float64 = int64 = None

    @staticmethod
    def array(x, dtype=None):
        if isinstance(x, (list, tuple)) and not isinstance(x, SymSeq):
            return as_seq(x)
        if isinstance(x, LazyMap):
            return x.to_seq()
        return x

    @staticmethod
    def arange(n, dtype=None):
        return SymSeq(lift(n), lambda j: Sym(lift(j)), SInt, "arange")

    @staticmethod
    def full(n, v, dtype=None):
        return SymSeq(lift(n), lambda j: Sym(z3.RealVal(v)) if isinstance(v, (int, float)) else v, SReal, "full")


class HighsStub(Tracked):
    """the assumed highspy contract A1 over ghost state: store.holds, lb/ub/cost arrays, offset, sense, values"""

    def __init__(self, store=None):
        c = core.ctx()
        self.store = store or Store()
        self.lb = z3.Array(c.name("lb0"), INT, REAL)
        self.ub = z3.Array(c.name("ub0"), INT, REAL)
        self.cost = z3.Array(c.name("cost0"), INT, REAL)
        self.lb0, self.ub0, self.cost0 = self.lb, self.ub, self.cost
        self.offset = Sym(z3.Real(c.name("offset0")))
        self.sense = Sym(z3.String(c.name("sense0")))
        self.numVariables = Sym(z3.Int(c.name("ncols")))
        c.assume(self.numVariables.t >= 0)
        self.has_changeColsLower = Sym(z3.Bool(c.name("has_changeColsLower")))
        self.values = z3.Array(c.name("colvalue"), INT, REAL)
        self.optimize_calls = 0
        self.status_name = Sym(z3.String(c.name("highs_status")))
        self.created = []

    # rows
    def addConstr(self, expr, name=""):
        if not (isinstance(expr, Sym) and expr.t.sort() == BOOL):
            raise Unsupported("addConstr of a non-row")
        self.store.add(expr)

    def qsum(self, it):
        return sum_(it)

    # columns
    def _update(self, arr, n, idxs, vals, what):
        c = core.ctx()
        idxs, vals = as_seq(idxs), as_seq(vals, SReal)
        n = lift(n)
        a, b = z3.Int(c.name("a")), z3.Int(c.name("b"))
        c.prove("pre:%s:distinct-columns" % what, z3.ForAll([a, b], z3.Implies(z3.And(0 <= a, a < b, b < n), lift(idxs.at(a)) != lift(idxs.at(b)))), kind="pre")
        c.prove("pre:%s:count-matches" % what, z3.And(n == idxs.n, n == vals.n), kind="pre")
        pos = z3.Function(c.name("pos"), INT, INT)
        jj = z3.Int(c.name("jj"))
        c.assume(z3.ForAll([jj], z3.Implies(z3.And(jj >= 0, jj < n), pos(lift(idxs.at(jj))) == jj)))
        col = z3.Int(c.name("col"))
        hit = z3.And(pos(col) >= 0, pos(col) < n, lift(idxs.at(pos(col))) == col)
        v = lift(vals.at(pos(col)))
        if v.sort() == INT:
            v = z3.ToReal(v)
        return z3.Lambda([col], z3.If(hit, v, arr[col]))

    def changeColsBounds(self, n, idxs, lo, up):
        newlb = self._update(self.lb, n, idxs, lo, "changeColsBounds.lower")
        newub = self._update(self.ub, n, idxs, up, "changeColsBounds.upper")
        self.lb, self.ub = newlb, newub

    def changeColsLower(self, n, idxs, lo):
        self.lb = self._update(self.lb, n, idxs, lo, "changeColsLower")

    def getCols(self, n, idxs):
        idxs = as_seq(idxs)
        mk = lambda arr, nm: SymSeq(lift(n), lambda j: Sym(arr[lift(idxs.at(j))]), SReal, nm)
        return ("kOk", n, mk(self.cost, "getCols.cost"), mk(self.lb, "getCols.lower"), mk(self.ub, "getCols.upper"), 0)

    def changeColsCost(self, n, idxs, vals):
        self.cost = self._update(self.cost, n, idxs, vals, "changeColsCost")

    def changeObjectiveOffset(self, v):
        t = lift(v)
        self.offset = Sym(z3.ToReal(t) if t.sort() == INT else t)

    def changeObjectiveSense(self, s):
        self.sense = Sym(lift(s))

    def optimize(self):
        self.optimize_calls += 1

    def getModelStatus(self):
        st = self

        class _S:
            name = st.status_name
        return _S()

    def allVariableValues(self):
        arr = self.values
        return SymSeq(self.numVariables.t, lambda j: Sym(arr[lift(j)]), SReal, "allVariableValues")


class HighspyMod:
    class ObjSense:
        kMinimize = "kMinimize"
        kMaximize = "kMaximize"

    class HighsVarType:
        kInteger = "kInteger"
        kContinuous = "kContinuous"


class UtilsStub:
    logger = NoopLogger()


BASE_GLOBS = dict(utils=UtilsStub, np=NP, highspy=HighspyMod)


class SW(Tracked):
    """stub `self` for SolverWrapper methods; callees under contract are attached per unit"""

    def __init__(self):
        self.external_solver = "highs"
        self.solver = HighsStub()
        self.store = self.solver.store
        self.tolerance = 1e-9


def add_constraint_stub(self, expr, name=""):
    """contract of SolverWrapper.add_constraint (proved in unit `add_constraint`): holds' == holds /\\ expr"""
    if not (isinstance(expr, Sym) and expr.t.sort() == BOOL):
        raise Unsupported("add_constraint of a non-row")
    self.store.add(expr)


def quicksum_stub(self, it):
    """contract of SolverWrapper.quicksum (proved in unit `quicksum`): the sum of the terms"""
    return sum_(it)


def induct(c, name, P_, n, prop=None):
    """proof by induction on j in [0, n] of P_(j): emits base and step obligations (Skolem j), returns forall j. 0<=j<=n => P_(j).
    The step may use whatever unfoldings the caller has put into the path condition for the Skolem constant it passes."""
    raise NotImplementedError


# ============================================================================================
# units
# ============================================================================================

def u_add_constraint():
    def h(c, f):
        me = SW()
        H0 = me.store.holds.t
        row = Sym(z3.Bool("row"))
        f(me, row, name="r")
        c.prove("post:store-extended-by-exactly-the-row", me.store.holds.t == z3.And(H0, row.t), prop=P)
    return Unit(F, "SolverWrapper.add_constraint", h, globs=BASE_GLOBS, props=[P], assumptions=[A1],
                abstractions=["external_solver fixed to 'highs' (Gurobi not installed; its branches are outside the claims)"])


def u_quicksum():
    def h(c, f):
        me = SW()
        a, b, d = [Sym(z3.Real(n)) for n in "a b d".split()]
        r = f(me, [a, b, d])
        c.prove("post:sum-of-concrete-terms", lift(r) == a.t + b.t + d.t, prop=P)
        me2 = SW()
        seq = SymSeq.fresh("terms", SReal)
        r2 = f(me2, seq)
        bs = c.sums[-1]
        c.prove("post:sum-of-abstract-terms-is-prefix-sum", z3.And(lift(r2) == bs.S(seq.n), bs.S(0) == 0), prop=P)
    return Unit(F, "SolverWrapper.quicksum", h, globs=BASE_GLOBS, props=[P], assumptions=[A1])


def u_binary_product():
    def h(c, f):
        me = SW()
        me.add_constraint = lambda expr, name="": add_constraint_stub(me, expr, name)
        b, cc, p, lb, ub = [Sym(z3.Real(n)) for n in "b c p lb ub".split()]
        H0 = me.store.holds.t
        c.assume(z3.And(z3.Or(b.t == 0, b.t == 1), lb.t <= cc.t, cc.t <= ub.t))      # documented assumptions
        c.cover("requires-satisfiable")
        f(me, b, cc, p, lb, ub, "nm")
        H = me.store.holds.t
        c.prove("post:sound(rows=>product)", z3.Implies(H, z3.And(H0, p.t == b.t * cc.t)), prop=P)
        c.prove("post:complete(product=>rows)", z3.Implies(z3.And(H0, p.t == b.t * cc.t), H), prop=P)

    def replay(ob, model):
        from vf.replay import replay_binary_product
        return replay_binary_product(model)
    return Unit(F, "SolverWrapper.add_binary_continuous_product_constraint", h, globs=BASE_GLOBS, props=[P], replay=replay,
                callee_contracts=["SolverWrapper.add_constraint"])


UNITS = [u_add_constraint, u_quicksum, u_binary_product]
