"""Sidecar contracts for C03 / C05 (proof piece): MinFlowDecomp._get_lowerbound_with_subgraph_scanning - the sliding-window lower bound.

ensures  every window handed to the sub-model is a valid range of the topological order (0 <= left <= right < n: the helper raises otherwise and solve() would crash);
         the sub-model of a window is a MinFlowDecomp on the subgraph of THAT window with the same flow attribute / weight type / coverage parameters, with
         exactly the ignored edges whose two endpoints are nodes of the subgraph, and with the scanning option switched OFF (no recursion);
         the value returned is None when no visited window gave a solved sub-model with at least one path, else the MAXIMUM over the visited windows of the number
         of paths of their solved sub-models.
NOT proved (graph argument, A4): the minimum of a window's sub-instance is a lower bound on the minimum of the whole instance; termination."""
import z3
from pyvc import core
from pyvc.core import Sym, lift, INT, REAL, BOOL, Unsupported
from pyvc.heap import SymSeq, SInt, STuple
from pyvc.rt import Tracked
from pyvc.unit import Unit
from contracts.stubs import UtilsStub, TimeStub, CopyStub

P = "C03"
PP = "C03,C05"
ESH = STuple(SInt, SInt)
SOLVED = z3.Function("window_submodel_is_solved", INT, BOOL)
KW = z3.Function("window_submodel_number_of_paths", INT, INT)
INWIN = z3.Function("node_is_in_the_subgraph_of_window", INT, INT, INT, BOOL)        # (left, right, node)


def u_subgraph_scanning(with_time_limit):
    st = {}

    class Ghost:
        """the set of right indices visited so far (ghost state, advanced where the window's subgraph is requested)"""
        def __init__(self, pred): self.V = pred

    def fresh_visited(old):
        f = z3.Function(core.ctx().name("visited"), INT, BOOL)
        return lambda r: f(r)

    class NodesOf:
        def __init__(self, l, r): self.l, self.r = l, r
        def sym_contains(self, x): return Sym(INWIN(self.l, self.r, lift(x)))
        def __contains__(self, x): return bool(self.sym_contains(x))

    class Window:
        def __init__(self, l, r): self.l, self.r = l, r
        def nodes(self): return NodesOf(self.l, self.r)

    class Weights(SymSeq):
        pass

    class WSet:
        def update(self, it): pass
        def remove(self, x): pass
        def __contains__(self, x):
            c = core.ctx()
            return c.decide(z3.Bool(c.name("zero_among_the_weights")), "zero-weight")

    def h(c, f):
        n, size, shift, lb0 = c.fresh_const("n_nodes", INT), c.fresh_const("window_size", INT), c.fresh_const("window_shift", INT), c.fresh_const("current_lowerbound", INT)
        c.assume(z3.And(n >= 0, size >= 1, shift >= 1, lb0 >= 1))
        r_ = z3.Int("hr")
        c.assume(z3.ForAll([r_], KW(r_) >= 0))
        calls = []

        class Me(Tracked):
            pass
        me = Me()
        me.ghost = Ghost(lambda r: z3.BoolVal(False))
        st["me"] = me

        class GU:
            @staticmethod
            def get_subgraph_between_topological_nodes(G, topo_order=None, left=None, right=None):
                l, r = lift(left), lift(right)
                c.prove("pre:the-window-is-a-valid-range-of-the-topological-order-(0<=left<=right<n)", z3.And(l >= 0, l <= r, r < n), prop=PP, kind="pre")
                c.prove("pre(auxiliary):the-window-spans-window_size-positions", l == r - size, prop=None, kind="pre")
                old = me.ghost.V
                object.__setattr__(me.ghost, "V", lambda x: z3.Or(old(x), x == r))
                st["cur"] = (l, r)
                return Window(l, r)

        class Sub:
            def __init__(self, r): self.r = r
            def solve(self): pass
            def is_solved(self): return Sym(SOLVED(self.r))
            def get_solution(self):
                r = self.r
                return {"weights": Weights(KW(r), lambda q: Sym(z3.RealVal(1)), None, "weights")}

        class MFD:
            subgraph_lowerbound_size, subgraph_lowerbound_shift = Sym(size), Sym(shift)
            def __new__(cls, G=None, flow_attr=None, weight_type=None, subpath_constraints=None, subpath_constraints_coverage=None, subpath_constraints_coverage_length=None,
                        length_attr=None, elements_to_ignore=None, optimization_options=None, solver_options=None, **kw):
                l, r = st["cur"]
                ok_graph = isinstance(G, Window) and G.l is l and G.r is r
                c.prove("pre:the-sub-model-is-built-on-the-subgraph-of-the-current-window-with-the-model's-own-flow-attribute,-weight-type-and-coverage-parameters",
                        z3.BoolVal(bool(ok_graph and flow_attr == "FLOW" and weight_type == "WT" and subpath_constraints_coverage == "COV" and subpath_constraints_coverage_length == "COVLEN"
                                        and length_attr == "LEN")), prop=PP, kind="pre")
                c.prove("pre:the-sub-model-does-not-scan-subgraphs-itself-(no-recursion)-and-starts-from-the-current-lower-bound",
                        z3.BoolVal(isinstance(optimization_options, dict) and optimization_options.get("use_subgraph_scanning_lowerbound") is False and optimization_options is not me.optimization_options)
                        if not isinstance(optimization_options, dict) or not isinstance(optimization_options.get("lowerbound_k"), Sym)
                        else z3.And(z3.BoolVal(optimization_options.get("use_subgraph_scanning_lowerbound") is False and optimization_options is not me.optimization_options),
                                    lift(optimization_options["lowerbound_k"]) == lb0), prop=PP, kind="pre")
                # the ignore list handed over: exactly the model's ignored edges with both endpoints among the subgraph's nodes
                from pyvc.heap import LazyMap
                good = isinstance(elements_to_ignore, LazyMap) and elements_to_ignore.seq is me.edges_to_ignore and elements_to_ignore.flt is not None
                if good:
                    q = c.fresh_const("arbitrary_ignored_edge", INT)
                    c.assume(z3.And(q >= 0, q < me.edges_to_ignore.n))
                    el = me.edges_to_ignore._at(q)
                    with c.quantified(z3.BoolVal(True)):
                        keep = elements_to_ignore.flt(el)
                        same = elements_to_ignore.fn(el)
                    c.prove("pre:the-ignore-list-of-the-sub-model=the-ignored-edges-whose-two-endpoints-are-nodes-of-the-subgraph",
                            z3.And(lift(keep) == z3.And(INWIN(l, r, lift(el[0])), INWIN(l, r, lift(el[1]))), lift(same[0]) == lift(el[0]), lift(same[1]) == lift(el[1])), prop=PP, kind="pre")
                else:
                    c.prove("pre:the-ignore-list-of-the-sub-model=the-ignored-edges-whose-two-endpoints-are-nodes-of-the-subgraph",
                            z3.BoolVal(isinstance(elements_to_ignore, list) and not elements_to_ignore and False), prop=PP, kind="pre")
                c.prove("pre(auxiliary):only-constraints-inside-the-subgraph-are-handed-over", z3.BoolVal(subpath_constraints == []), prop=None, kind="pre")
                if with_time_limit:
                    tl = solver_options.get("time_limit") if isinstance(solver_options, dict) else None
                    c.prove("pre:the-sub-model-gets-the-remaining-time,-in-a-copy-of-the-solver-options", z3.And(z3.BoolVal(solver_options is not me.solver_options and isinstance(tl, Sym)),
                            (lift(tl) == st["TL"] - st["EL"]) if isinstance(tl, Sym) else z3.BoolVal(False)), prop=PP, kind="pre")
                calls.append(r)
                return Sub(r)
        st["MFD"] = MFD

        class G:
            @staticmethod
            def number_of_nodes(): return Sym(n)
        me.G = G
        me._lowerbound_k = Sym(lb0)
        me.subpath_constraints = []
        me.edges_to_ignore = SymSeq.fresh("edges_to_ignore", ESH)
        me.optimization_options = {"use_subgraph_scanning_lowerbound": True}
        me.solver_options = {}
        if with_time_limit:
            st["TL"], st["EL"] = c.fresh_const("time_limit", REAL), c.fresh_const("time_elapsed", REAL)
            me.solver_options = {"time_limit": Sym(st["TL"])}
            me.time_limit, me.solve_time_elapsed = Sym(st["TL"]), Sym(st["EL"])
        me.flow_attr, me.weight_type, me.subpath_constraints_coverage, me.subpath_constraints_coverage_length, me.length_attr = "FLOW", "WT", "COV", "COVLEN", "LEN"
        me.solve_statistics = {}
        st["gu"] = GU
        res = f(me)
        V = me.ghost.V
        r1, r2 = z3.Ints("pr1 pr2")
        best = st["lbs_final"]
        if res is None:
            c.prove("post:None-only-if-no-visited-window-gave-a-solved-sub-model-with-at-least-one-path", z3.ForAll([r1], z3.Implies(z3.And(V(r1), SOLVED(r1)), KW(r1) == 0)), prop=PP)
        else:
            c.prove("post:the-bound=maximum-over-the-visited-windows-of-the-number-of-paths-of-their-solved-sub-models",
                    z3.And(lift(res) > 0, z3.ForAll([r1], z3.Implies(z3.And(V(r1), SOLVED(r1)), lift(res) >= KW(r1))),
                           z3.Exists([r2], z3.And(V(r2), SOLVED(r2), lift(res) == KW(r2)))), prop=PP)

    def inv(ns, seq, done):
        me = ns["self"]
        V, r, lbs = me.ghost.V, lift(ns["right_node_index"]), lift(ns["subgraph_scanning_lowerbound"])
        st["lbs_final"] = lbs
        r1, r2 = z3.Ints("ir1 ir2")
        return {"running-bound=max(0,-paths-of-the-solved-sub-models-of-the-windows-visited-so-far)":
                    z3.And(lbs >= 0, z3.ForAll([r1], z3.Implies(z3.And(V(r1), SOLVED(r1)), lbs >= KW(r1))),
                           z3.Or(lbs == 0, z3.Exists([r2], z3.And(V(r2), SOLVED(r2), lbs == KW(r2))))),
                "the-right-end-stays-at-or-above-the-window-size": r >= lift(st["MFD"].subgraph_lowerbound_size)}

    class GUProxy:
        @staticmethod
        def get_subgraph_between_topological_nodes(*a, **k): return st["gu"].get_subgraph_between_topological_nodes(*a, **k)

    class MFDProxy:
        def __call__(self, *a, **k): return st["MFD"](*a, **k)
        def __getattr__(self, k): return getattr(st["MFD"], k)

    class NX:
        @staticmethod
        def topological_sort(G): return ()

    loops = {0: dict(inv=inv, prop=PP, modifies=[(("self", "ghost", "V"), fresh_visited)], havoc={"all_subgraph_weights": lambda old: old},
                     keep=("subgraph", "subgraph_subpath_constraints", "subgraph_edges_to_ignore", "subgraph_optimization_options", "subgraph_solver_options", "subgraph_mfd_solver",
                           "subgraph_mfd_solution"))}
    from vf.replay import replay_subgraph_scanning
    return Unit("flowpaths/minflowdecomp.py", "MinFlowDecomp._get_lowerbound_with_subgraph_scanning", h, replay=replay_subgraph_scanning,
                globs=dict(utils=UtilsStub, time=TimeStub, copy=CopyStub, gu=GUProxy, nx=NX, MinFlowDecomp=MFDProxy(), set=lambda: WSet()), loops=loops, props=["C03", "C05"],
                name="flowpaths/minflowdecomp.py:MinFlowDecomp._get_lowerbound_with_subgraph_scanning[%s]" % ("time limit set" if with_time_limit else "no time limit"),
                callee_contracts=["graphutils.get_subgraph_between_topological_nodes: requires 0 <= left <= right < n (raises ValueError otherwise)",
                                  "MinFlowDecomp(...).solve() / is_solved() / get_solution(): the window's sub-model (its own contracts: C13, C03)"],
                assumptions=["A4 (not proved): the minimum number of paths of a window's sub-instance is a lower bound for the whole instance", "termination of the scan not proved",
                             "no sub-path constraints in this contract (on the pinned tree none is ever handed to a sub-model: the filter tests edge tuples for membership among nodes)"],
                abstractions=["windows are identified by their right index; which nodes a window's subgraph has is an uninterpreted relation", "the visited windows are ghost state"])




def u_get_lowerbound_k(cls="MinFlowDecomp", relpath="flowpaths/minflowdecomp.py", cyc=False, P="C03"):
    """MinFlowDecomp.get_lowerbound_k: the glue of the lower bounds.
    ensures  the value is the MAXIMUM of: the caller's `lowerbound_k` option (default 1); ceil(log2(number of distinct integer flow values on the non-ignored edges)) when
             there is such an edge; the width of the s-t DAG with the synthetic source/sink edges AND the ignored edges left out; the min-gen-set bound / the
             subgraph-scanning bound when their option is on and they are not None - nothing larger, nothing left out; it is cached and a second call returns the cache
             without recomputing.
    Each component being a lower bound on the optimum is A4 (not proved); the two optional bounds have their own units."""
    st = {}
    IGN = z3.Function("edge_is_ignored", INT, INT, BOOL)
    HASF = z3.Function("edge_has_flow_attribute", INT, INT, BOOL)

    class Distinct:
        """set of int(flow) over the counted edges: only its size is used"""
        def __init__(self, n): self.n = n

    def h(c, f):
        optlb, nd, width, mgs, scan = (c.fresh_const(x, INT) for x in ("option_lowerbound_k", "n_distinct_values", "width_without_ignored", "mingenset_bound", "scanning_bound"))
        use_mgs, use_scan, has_opt, mgs_none, scan_none = (c.fresh_const(x, BOOL) for x in ("use_min_gen_set_lowerbound", "use_subgraph_scanning_lowerbound", "lowerbound_k_given",
                                                                                               "mingenset_bound_is_None", "scanning_bound_is_None"))
        c.assume(z3.And(optlb >= 1, nd >= 0, width >= 0, mgs >= 0, scan >= 0))
        LOG = z3.Function("ceil_log2", INT, INT)
        calls = []

        class Opts:
            def get(self, k, default=None):
                if k == "lowerbound_k":
                    return Sym(z3.If(has_opt, optlb, lift(default))) if default is not None else None
                if k == "use_min_gen_set_lowerbound":
                    return Sym(use_mgs)
                if k == "use_subgraph_scanning_lowerbound":
                    return Sym(use_scan)
                raise Unsupported("option %r" % (k,))

        class StG:
            source_sink_edges = None
            def __init__(self, G, additional_starts=None, additional_ends=None):
                calls.append("stDAG")
                if cyc:
                    c.prove("pre:the-s-t-graph-of-the-bound-is-built-with-the-model's-additional-starts-and-ends",
                            z3.BoolVal(G is me.G and additional_starts is me.additional_starts and additional_ends is me.additional_ends), prop=P, kind="pre")
                self.source_sink_edges = SSE()
            def get_width(self, edges_to_ignore=None):
                ok = isinstance(edges_to_ignore, Union) and edges_to_ignore.parts == ("source_sink_edges", "edges_to_ignore")
                c.prove("pre:the-width-is-taken-with-the-synthetic-source/sink-edges-and-the-ignored-edges-left-out", z3.BoolVal(ok), prop=P, kind="pre")
                calls.append("width")
                return Sym(width)

        class Union:
            def __init__(self, parts): self.parts = parts

        class SSE:
            def union(self, other): return Union(("source_sink_edges", "edges_to_ignore") if other is me.edges_to_ignore else ("source_sink_edges", "?"))

        class Me(Tracked):
            def _get_lowerbound_with_min_gen_set(self):
                calls.append("mgs")
                return None if c.decide(mgs_none, "mgs-none") else Sym(mgs)
            def _get_lowerbound_with_subgraph_scanning(self):
                calls.append("scan")
                return None if c.decide(scan_none, "scan-none") else Sym(scan)
        me = Me()
        me._lowerbound_k = None
        FL = z3.Function("flow_value", INT, INT, REAL)

        class AttrD:
            def __init__(self, e): self.u, self.v = lift(e[0]), lift(e[1])
            def sym_contains(self, a): return Sym(HASF(self.u, self.v))
            def __contains__(self, a): return bool(self.sym_contains(a))
            def __getitem__(self, a): return Sym(FL(self.u, self.v))

        class EdgesView:
            def __call__(self, data=False): return st["E"]
            def __getitem__(self, e): return AttrD(e)

        class GG:
            edges = EdgesView()
        st["E"] = SymSeq.fresh("G.edges", ESH)
        me.G = GG()
        me.optimization_options = Opts()
        me.edges_to_ignore = ("IGNORED-EDGES",)
        me.additional_starts, me.additional_ends = ["START"], ["END"]
        me.flow_attr = "flow"
        st.update(nd=nd, me=me, LOG=LOG)

        class Math:
            @staticmethod
            def log2(x): return ("log2", lift(x))
            @staticmethod
            def ceil(x):
                if isinstance(x, tuple) and x[0] == "log2":
                    return Sym(LOG(x[1]))
                raise Unsupported("ceil of something else than log2(...)")
        st["math"] = Math
        st["stdag"] = StG
        st["Union"] = Union
        r = f(me)
        want = z3.If(has_opt, optlb, z3.IntVal(1))
        mx = lambda a, b: z3.If(a >= b, a, b)
        if not cyc:
            want = z3.If(nd > 0, mx(want, LOG(nd)), want)
        want = mx(want, width)
        want = z3.If(z3.And(use_mgs, z3.Not(mgs_none)), mx(want, mgs), want)
        if not cyc:
            want = z3.If(z3.And(use_scan, z3.Not(scan_none)), mx(want, scan), want)
        c.prove("post:the-bound=max(option-or-1,-ceil(log2(#distinct-values))-if-any,-width,-min-gen-set-bound-if-on,-scanning-bound-if-on)", lift(r) == want, prop=P)
        c.prove("post:the-bound-is-cached", z3.BoolVal(me._lowerbound_k is r or (isinstance(me._lowerbound_k, Sym) and z3.eq(lift(me._lowerbound_k), lift(r)))), prop=P)
        c.prove("post(auxiliary):the-optional-bounds-are-computed-iff-their-option-is-on", z3.And(z3.BoolVal("mgs" in calls) == use_mgs, z3.BoolVal("scan" in calls) == (use_scan if not cyc else z3.BoolVal(False))), prop=None)
        n0 = len(calls)
        r2 = f(me)
        c.prove("post:a-second-call-returns-the-cached-bound-without-recomputing", z3.And(z3.BoolVal(len(calls) == n0), lift(r2) == lift(r)), prop=P)

    class IgnSet:
        def sym_contains(self, e): return Sym(IGN(lift(e[0]), lift(e[1])))
        def __contains__(self, e): return bool(self.sym_contains(e))

    def set_(x=None):
        from pyvc.heap import LazyMap
        c = core.ctx()
        if isinstance(x, Distinct):
            return x
        if x is st["me"].edges_to_ignore:
            return IgnSet()
        if isinstance(x, LazyMap) and x.seq is st["E"] and x.flt is not None:
            # { int(flow) for e in G.edges() if <has the attribute> and <not ignored> }: the values of exactly the counted edges; only the size of the set is used afterwards
            q = c.fresh_const("arbitrary_edge", INT)
            c.assume(z3.And(q >= 0, q < st["E"].n))
            el = st["E"]._at(q)
            with c.quantified(z3.BoolVal(True)):
                keep = x.flt(el)
            c.prove("pre:the-distinct-values-are-taken-over-exactly-the-edges-that-carry-a-value-and-are-not-ignored",
                    lift(keep) == z3.And(HASF(lift(el[0]), lift(el[1])), z3.Not(IGN(lift(el[0]), lift(el[1])))), prop=P, kind="pre")
            return Distinct(st["nd"])
        raise Unsupported("set() of %s" % type(x).__name__)

    def len_(x):
        if isinstance(x, Distinct):
            return Sym(x.n)
        from pyvc.rt import BUILTINS
        return BUILTINS["len"](x)

    class MathProxy:
        def __getattr__(self, k): return getattr(st["math"], k)

    class StdagProxy:
        @staticmethod
        def stDAG(G): return st["stdag"](G)
        @staticmethod
        def stDiGraph(G, additional_starts=None, additional_ends=None): return st["stdag"](G, additional_starts=additional_starts, additional_ends=additional_ends)

    class ClsProxy:
        use_min_gen_set_lowerbound = False
        use_subgraph_scanning_lowerbound = False

    class EdgesOf:
        pass
    from vf.replay import replay_lowerbound_k, replay_lowerbound_k_cycles
    return Unit(relpath, cls + ".get_lowerbound_k", h, replay=(replay_lowerbound_k_cycles if cyc else replay_lowerbound_k), globs={"utils": UtilsStub, "math": MathProxy(), "stdag": StdagProxy, "stdigraph": StdagProxy, "set": set_, "len": len_, cls: ClsProxy, "list": lambda x: x}, props=[P],
                
                callee_contracts=["stDAG.get_width (C09)", "_get_lowerbound_with_min_gen_set, _get_lowerbound_with_subgraph_scanning (own units)"],
                assumptions=["A4 (not proved): every component is a lower bound on the minimum number of paths", "ceil(log2(n)) is an uninterpreted integer function of n",
                             "the set of distinct integer flow values is opaque: only its size is used; that it ranges over exactly the value-carrying, non-ignored edges is a checked clause"])


def cyc_units():
    return [u_get_lowerbound_k("MinFlowDecompCycles", "flowpaths/minflowdecompcycles.py", cyc=True, P="C04")]


def all_units():
    return [u_subgraph_scanning(False), u_subgraph_scanning(True), u_get_lowerbound_k()]
