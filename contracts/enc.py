"""Encoder contracts ("sigma-semantics" at model level).  The MILP a model class builds is a conjunction of rows over columns; a row is a
formula over the VALUES an arbitrary assignment sigma gives to the columns.  The values are uninterpreted functions  X(u,v,i), PI(u,v,i), W(i) ...
so an obligation proved here holds for EVERY assignment - in particular for whatever the solver returns.  `store.holds` is the conjunction
of all rows added so far; an encoder's contract is an equivalence

        holds_after   <=>   holds_before  /\\  bounds of the new columns  /\\  SPEC(sigma)

(soundness: every admitted assignment satisfies the paper's constraint; completeness: nothing else is excluded).  Callees are the
SolverWrapper methods, used through their contracts proved under C12:
    add_variables(index set, lb, ub, type)   one column per index; bounds (and integrality) enter holds
    add_constraint(row)                      holds' = holds /\\ row
    quicksum(terms)                          the sum of the terms
    add_binary_continuous_product_constraint (b in {0,1} /\\ lb <= c <= ub)  =>  (rows <=> p = b*c)
Sums over i < k are prefix-sum functions; the sum the code builds is shown equal to the specification's canonical sum by induction
(lemma obligations), the induction rule itself being the engine's trusted rule."""
import z3
from pyvc import core
from pyvc.core import Sym, lift, INT, REAL, BOOL, Unsupported
from pyvc.heap import SymSeq, SymRange, LazyMap, LazyProduct, SInt, STuple, SReal
from pyvc.rt import Tracked, BUILTINS
from pyvc.unit import Unit, NoopLogger
from contracts.sw import Store, induct, Var

A1C = "C12 contracts of SolverWrapper.add_variables / add_constraint / quicksum / product helpers (proved in the C12 units; the exactness of the product helper needs b in {0,1} and lb <= c <= ub, which the store implies here)"
A3 = "A3 Python int = mathematical integer, float = real"


class UtilsStub:
    logger = NoopLogger()

    @staticmethod
    def fpid(g):
        return "<graph>"


NLMUL = core.TIMES


def split_clauses(clauses):
    """an invariant `holds == (entry /\\ rows)` is kept as two clauses: SOUND  holds => entry /\\ rows  (a property clause: an admitted
    assignment violating the specification is a violation) and COMPLETE  entry /\\ rows => holds  (auxiliary: an encoding that excludes more
    than the specification - a valid cut, symmetry breaking, a tighter bound - may or may not cut off every optimum; that is decided by the
    bounded comparison with the exact oracles, never reported as a violation from here)."""
    out = {}
    for nm, t in clauses.items():
        if z3.is_eq(t) and t.arg(0).sort() == BOOL:
            out[nm + " [SOUND]"] = z3.Implies(t.arg(0), t.arg(1))
            out[nm + " [COMPLETE]"] = z3.Implies(t.arg(1), t.arg(0))
        elif z3.is_and(t) and t.num_args() == 2 and z3.is_eq(t.arg(0)) and t.arg(0).arg(0).sort() == BOOL:
            e = t.arg(0)
            out[nm + " [SOUND]"] = z3.And(z3.Implies(e.arg(0), e.arg(1)), t.arg(1))
            out[nm + " [COMPLETE]"] = z3.Implies(e.arg(1), e.arg(0))
        else:
            out[nm] = t
    return out


def sound_only(P):
    return lambda nm: None if nm.endswith("[COMPLETE]") else P


def split_loops(loops, P):
    for k_, sp in loops.items():
        f0 = sp["inv"]
        sp["inv"] = (lambda f0: (lambda ns, seq, done: split_clauses(f0(ns, seq, done))))(f0)
        sp["prop"] = sound_only(P)
    return loops



def mul(a, b):
    """the product of two column values.  In the quantified (unbounded) harnesses multiplication of two non-constant terms is the
    uninterpreted symbol `times` with the facts used (0*b = b*0 = 0, 1*b = b*1 = b): everything proved for an arbitrary such function holds for
    real multiplication, and the solver is spared nonlinear integer reasoning (which made verdicts flip under load).  Concrete instances
    use real multiplication, so their counterexamples are genuine."""
    c = core.ctx()
    if getattr(c, "mul_abstract", False):
        a, b = (z3.ToReal(a) if a.sort() == INT else a), (z3.ToReal(b) if b.sort() == INT else b)
        return NLMUL(a, b)
    return a * b


def abstract_mul(c):
    c.mul_abstract = True
    b = z3.Real("mb")
    c.assume(z3.ForAll([b], z3.And(NLMUL(0, b) == 0, NLMUL(1, b) == b, NLMUL(b, 0) == 0, NLMUL(b, 1) == b)))


class Member:
    """a set / dict of which only membership is read"""
    def __init__(self, pred, label="member"):
        self.pred, self.label = pred, label

    def __contains__(self, key):
        key = key if isinstance(key, tuple) else (key,)
        return core.ctx().decide(self.pred(*[lift(x) for x in key]), self.label)

    def sym_contains(self, key):
        key = key if isinstance(key, tuple) else (key,)
        return Sym(self.pred(*[lift(x) for x in key]))


class IdxSet:
    """an index list handed to add_variables: only the set of indexes matters (members: the explicit list, in concrete instances)"""
    def __init__(self, name, pred, arity, members=None):
        self.name, self.pred, self.arity, self.members = name, pred, arity, members


def cv(t):
    """python value of a concrete index term"""
    t = z3.simplify(lift(t))
    if z3.is_int_value(t):
        return t.as_long()
    raise Unsupported("symbolic index in a concrete instance")


def concrete_idx(name, members, arity):
    ms = set(members)
    return IdxSet(name, lambda *a: z3.BoolVal(tuple(cv(x) for x in a) in ms), arity, members=list(members))


class VarMap:
    """dict index -> column; value of the column under sigma = fn(*index)"""
    def __init__(self, name, fn, pred, arity):
        self.name, self.fn, self.pred, self.arity = name, fn, pred, arity

    def __getitem__(self, key):
        key = key if isinstance(key, tuple) else (key,)
        if len(key) != self.arity:
            raise KeyError(key)
        ts = [lift(x) for x in key]
        c = core.ctx()
        if c.qguards:                           # evaluated at a bound variable (term of a sum): must follow from the guard
            if not c._valid(self.pred(*ts)):
                raise Unsupported("%s[...] at a bound index that may not be a column" % self.name)
        else:
            c.prove("pre:%s[...]-is-an-existing-column" % self.name, self.pred(*ts), kind="pre")
        return Var(self.fn(*ts), Sym(z3.IntVal(0)))


class Graph:
    """abstract digraph with a finite edge enumeration; FLOW(u,v) is the value stored under flow_attr"""
    def __init__(self, c, tag=""):
        self.EDGE = z3.Function("is_edge" + tag, INT, INT, BOOL)
        self.EU, self.EV = z3.Function("edge_tail" + tag, INT, INT), z3.Function("edge_head" + tag, INT, INT)
        self.EIDX = z3.Function("edge_index" + tag, INT, INT, INT)
        self.FLOW = z3.Function("flow" + tag, INT, INT, REAL)
        self.n = c.fresh_const("n_edges", INT)
        j, u, v = z3.Ints("gj gu gv")
        c.assume(self.n >= 0)
        c.assume(z3.ForAll([j], z3.Implies(z3.And(j >= 0, j < self.n), z3.And(self.EDGE(self.EU(j), self.EV(j)), self.EIDX(self.EU(j), self.EV(j)) == j))))
        c.assume(z3.ForAll([u, v], z3.Implies(self.EDGE(u, v), z3.And(self.EIDX(u, v) >= 0, self.EIDX(u, v) < self.n, self.EU(self.EIDX(u, v)) == u, self.EV(self.EIDX(u, v)) == v))))
        self.source, self.sink = Sym(z3.Int("source")), Sym(z3.Int("sink"))
        g = self

        class Data:
            def __init__(self, u, v): self.u, self.v = u, v
            def __getitem__(self, key): return Sym(g.FLOW(lift(self.u), lift(self.v)))
            def get(self, key, default=None): return Sym(g.FLOW(lift(self.u), lift(self.v)))
            def __contains__(self, key): return True
        self.Data = Data

    def edges(self, data=False):
        if data:
            return SymSeq(self.n, lambda j: (Sym(self.EU(lift(j))), Sym(self.EV(lift(j))), self.Data(Sym(self.EU(lift(j))), Sym(self.EV(lift(j))))), None, "edges")
        from pyvc.heap import STuple
        return SymSeq(self.n, lambda j: (Sym(self.EU(lift(j))), Sym(self.EV(lift(j)))), STuple(SInt, SInt), "edges")


class Solver(Tracked):
    """the SolverWrapper seen through its contracts"""
    def __init__(self, families):
        self.store = Store()
        self.families = families              # name_prefix -> (fn, arity)
        self.created = {}

    def add_variables(self, indexes, name_prefix="", lb=0, ub=1, var_type="integer"):
        if isinstance(indexes, list) and all(isinstance(x, tuple) for x in indexes):      # concrete instance: an explicit index list
            indexes = concrete_idx(str(name_prefix) + "_indexes", indexes, len(indexes[0]) if indexes else self.families[name_prefix][1])
        if isinstance(indexes, SymSeq):             # an unfiltered list comprehension is already a sequence
            indexes = LazyMap("list", (lambda el: el), indexes, None)
        if isinstance(indexes, LazyMap):
            # [(u,v) for (u,v) in G.edges() if (u,v) not in edges_to_ignore]: recognised (and checked) as the set of non-ignored edges
            g, c = self.graph, core.ctx()
            j = c.fresh_const("arbitrary_edge", INT)            # a Skolem edge: what holds for it holds for every edge
            c.assume(z3.And(j >= 0, j < g.n))
            el = indexes.seq.at(j)
            key = indexes.fn(el)
            kept = bool(indexes.flt(el)) if indexes.flt is not None else True          # a decision on this path
            is_edges = isinstance(key, tuple) and len(key) == 2 and c._valid(z3.And(lift(indexes.seq.length()) == g.n, lift(key[0]) == g.EU(j), lift(key[1]) == g.EV(j)))
            if is_edges and indexes.flt is None:
                indexes = IdxSet("all_edges", lambda a, b: g.EDGE(a, b), 2)
            elif is_edges and c._valid(self.basic_pred(g.EU(j), g.EV(j)) == z3.BoolVal(kept)):
                indexes = IdxSet("edge_indexes_basic", self.basic_pred, 2)
            else:
                raise Unsupported("add_variables over a comprehension that is not recognised as `the edges` / `the non-ignored edges`")
        if not isinstance(indexes, IdxSet):
            raise Unsupported("add_variables over something else than a declared index set")
        if name_prefix not in self.families:
            raise Unsupported("add_variables: undeclared column family %r" % (name_prefix,))
        fn, arity = self.families[name_prefix]
        if arity != indexes.arity:
            raise Unsupported("add_variables: index arity")
        c = core.ctx()
        qs = [z3.Int(c.name("av%d" % a)) for a in range(arity)]
        if isinstance(ub, LazyMap) and isinstance(ub.seq, LazyProduct) and ub.flt is None and getattr(indexes, "source", None) is ub.seq:
            # ub = [g(key) for key in <the same index list>]: a per-index bound, read off at the bound index
            with c.quantified(indexes.pred(*qs)):
                hi = lift(ub.fn(tuple(Sym(q) for q in qs)))
            lo = lift(lb)
        elif isinstance(ub, list) and indexes.members is not None and len(ub) == len(indexes.members):
            lo = lift(lb)
            hi = None                                   # concrete instance with a per-index list: handled below
        else:
            lo, hi = lift(lb), lift(ub)
        lo = z3.ToReal(lo) if lo.sort() == INT else lo
        if hi is not None:
            hi = z3.ToReal(hi) if hi.sort() == INT else hi
        if hi is None:
            parts = []
            for mbr, ubv in zip(indexes.members, ub):
                t = fn(*[z3.IntVal(x) for x in (mbr if isinstance(mbr, tuple) else (mbr,))])
                uv = lift(ubv)
                uv = z3.ToReal(uv) if uv.sort() == INT else uv
                parts.append(z3.And(lo <= t, t <= uv, *([z3.IsInt(t)] if var_type == "integer" else [])))
            fact = z3.And(*parts) if parts else z3.BoolVal(True)
            self.store.add(fact)
            self.created[name_prefix] = dict(indexes=indexes, lb=lo, ub=None, var_type=var_type, fact=fact)
            return VarMap(name_prefix, fn, indexes.pred, arity)
        body = z3.And(lo <= fn(*qs), fn(*qs) <= hi)
        if var_type == "integer":
            body = z3.And(body, z3.IsInt(fn(*qs)))
        elif var_type != "continuous":
            raise Unsupported("var_type %r" % (var_type,))
        if indexes.members is not None:          # concrete instance: a finite conjunction
            fact = z3.And(*[z3.substitute(body, *zip(qs, [z3.IntVal(x) for x in (m if isinstance(m, tuple) else (m,))])) for m in indexes.members]) if indexes.members else z3.BoolVal(True)
        else:
            fact = z3.ForAll(qs, z3.Implies(indexes.pred(*qs), body))
        self.store.add(fact)
        self.created[name_prefix] = dict(indexes=indexes, lb=lo, ub=hi, var_type=var_type, fact=fact)
        return VarMap(name_prefix, fn, indexes.pred, arity)

    def add_constraint(self, expr, name=""):
        if not (isinstance(expr, Sym) and expr.t.sort() == BOOL):
            raise Unsupported("add_constraint of a non-row")
        self.store.add(expr)

    def set_objective(self, expr, sense="minimize"):
        """CONTRACT of SolverWrapper.set_objective (C12 unit): the objective is REPLACED by expr, with the given sense"""
        if not hasattr(self, "objectives"):
            object.__setattr__(self, "objectives", [])
        self.objectives.append((lift(expr) if isinstance(expr, Sym) else z3.RealVal(expr), sense))

    def quicksum(self, it):
        from pyvc.rt import sum_
        import types
        if isinstance(it, (list, tuple, types.GeneratorType)):
            r = 0
            for x in it:
                r = r + x
            return r
        if isinstance(it, LazyMap) and it.flt is not None:
            # a filtered generator: the sum over ALL positions of (term if kept else 0)
            fn, flt = it.fn, it.flt

            def term(el):
                keep = flt(el)
                if isinstance(keep, Sym):
                    return Sym(z3.If(keep.t, _real(lift(fn(el))), z3.RealVal(0)))
                return fn(el) if keep else 0
            it = LazyMap(it.kind, term, it.seq, None)
        return sum_(it)

    def add_binary_continuous_product_constraint(self, binary_var, continuous_var, product_var, lb, ub, name=""):
        c = core.ctx()
        R = z3.Bool(c.name("R_binprod"))
        b, cc, p = lift(binary_var), lift(continuous_var), lift(product_var)
        lo, hi = lift(lb), lift(ub)
        lo = z3.ToReal(lo) if lo.sort() == INT else lo
        hi = z3.ToReal(hi) if hi.sort() == INT else hi
        c.assume(z3.Implies(z3.And(z3.Or(b == 0, b == 1), lo <= cc, cc <= hi), R == (p == mul(b, cc))))
        self.store.add(R)


def _integer_product(self, integer_var, continuous_var, product_var, lb, ub, name=""):
    """CONTRACT of add_integer_continuous_product_constraint (C12 unit): with the helper's own bit / component columns projected away,
    (x integer, 0 <= x <= ub, lb <= c <= ub, lb <= 0 <= ub)  =>  (rows <=> p = x*c)"""
    c = core.ctx()
    R = z3.Bool(c.name("R_intprod"))
    x, cc, p = lift(integer_var), lift(continuous_var), lift(product_var)
    lo, hi = lift(lb), lift(ub)
    lo = z3.ToReal(lo) if lo.sort() == INT else lo
    hi = z3.ToReal(hi) if hi.sort() == INT else hi
    c.assume(z3.Implies(z3.And(z3.IsInt(x), 0 <= x, x <= hi, lo <= cc, cc <= hi, lo <= 0, 0 <= hi), R == (p == mul(x, cc))))
    self.store.add(R)


Solver.add_integer_continuous_product_constraint = _integer_product


def _real(t):
    return z3.ToReal(t) if t.sort() == INT else t


def link_sum(c, name, canon, canon_step, n, prop=None):
    """the sum just built by quicksum (last entry of ctx.sums) equals the specification's canonical prefix-sum `canon` at every q <= n:
    induction on q (lemma obligations base/step; the step uses one unfolding of each sum at the Skolem index, the terms being
    syntactically those of the canonical sum or provably equal to them)."""
    bs = c.sums[-1]
    c.assume(bs.defn())                      # definition of the fresh prefix-sum function (conservative)
    concl = induct(c, name, lambda q: bs.S(q) == canon(q), n, prop=prop, step_facts=lambda j: [bs.step(j), canon_step(j)])
    c.assume(concl)
    return bs


# =====================================================================================================================
# Edge-wise decomposition encoders of the DAG models:  for every non-ignored edge  { product rows for i < k ; rows relating sums to the edge value }

X = z3.Function("x_edge_var", INT, INT, INT, REAL)          # sigma-value of edge_vars[(u,v,i)]
PI = z3.Function("pi_var", INT, INT, INT, REAL)
GAMMA = z3.Function("gamma_var", INT, INT, INT, REAL)
W = z3.Function("w_var", INT, REAL)
SLACK = z3.Function("slack_var", INT, REAL)
EE = z3.Function("edge_error_var", INT, INT, REAL)
IGN = z3.Function("ignored", INT, INT, BOOL)
ZERO = z3.Function("edge_set_to_zero", INT, INT, INT, BOOL)
ONE = z3.Function("edge_set_to_one", INT, INT, INT, BOOL)
SCALE = z3.Function("edge_error_scaling", INT, INT, REAL)
FLOWC = z3.Function("flow", INT, INT, REAL)


def prefix_sum(c, name, term, nargs):
    """canonical prefix-sum function  S(args, q) = sum_{i<q} term(args, i)  with its defining axioms assumed (conservative definition)"""
    S = z3.Function(name, *([INT] * nargs), INT, REAL)
    a = [z3.Int(c.name("psa%d" % i)) for i in range(nargs)]
    q = z3.Int(c.name("psq"))
    c.assume(z3.ForAll(a, S(*a, 0) == 0) if a else S(0) == 0)
    c.assume(z3.ForAll(a + [q], z3.Implies(q >= 0, S(*a, q + 1) == S(*a, q) + term(*a, q))))
    return S


class ScaleMap:
    """edge_error_scaling: dict edge -> factor; .get(e, 1) = the factor in effect (SCALE(e) denotes that value)"""
    def get(self, key, default=None):
        return Sym(SCALE(lift(key[0]), lift(key[1])))


class CScaleMap:
    def get(self, key, default=None):
        return Sym(SCALE(key[0], key[1]))


def edge_encoder(relpath, qualname, P, wt, fams, products, summed, edge_rows, extra_attrs=None, guard_solved=False, what="", outer=0, cyc=False):
    """fams: [(name_prefix, fn, arity, index-kind in {edge, path, basic}, type in {"wt", "continuous"})] in creation order;
    products: one Bool builder (u, v, i) per inner loop, in order;  summed: {z3 decl name: (fn, canonical-sum name)};
    edge_rows(u, v, S, flow) -> z3 Bool, S[name] = the sum over i < k of that column family on the edge."""
    st = {}
    nprod = len(products)

    def rows_sym(g, k, u, v):
        i = z3.Int("ri")
        S = {nm: st["SUM"][nm](u, v, k) for nm in st["SUM"]}
        return z3.And(edge_rows(u, v, S, g.FLOW(u, v)), *[z3.ForAll([i], z3.Implies(z3.And(i >= 0, i < k), pr(u, v, i))) for pr in products])

    def inv_outer(ns, seq, done):
        g, k = st["g"], st["k"]
        j = z3.Int("oj")
        return {"rows-so-far=exactly-the-specified-rows-on-the-non-ignored-edges-seen":
                lift(ns["self"].solver.store.holds) == z3.And(st["H1"], z3.ForAll([j], z3.Implies(z3.And(j >= 0, j < lift(done), z3.Not(IGN(g.EU(j), g.EV(j)))), rows_sym(g, k, g.EU(j), g.EV(j)))))}

    def mk_inner(pr, ordinal):
        def on_entry(ns, it=None):
            st["Hin%d" % ordinal] = lift(ns["self"].solver.store.holds)
            st["cur"] = (lift(ns["u"]), lift(ns["v"]))

        def inv(ns, seq, done):
            u, v = st["cur"]
            i = z3.Int("ii")
            return {"product-rows-so-far=exactly-(product = x * factor)-for-the-paths-seen":
                    lift(ns["self"].solver.store.holds) == z3.And(st["Hin%d" % ordinal], z3.ForAll([i], z3.Implies(z3.And(i >= 0, i < lift(done)), pr(u, v, i))))}
        return on_entry, inv

    def type_of(t):
        return ("integer" if wt is int else "continuous") if t == "wt" else t

    def bounds_sym(c, g, k, wmax):
        u, v, i = z3.Ints("bu bv bi")
        preds = dict(edge=lambda a, b, q: z3.And(g.EDGE(a, b), q >= 0, q < k), path=lambda q: z3.And(q >= 0, q < k), basic=lambda a, b: z3.And(g.EDGE(a, b), z3.Not(IGN(a, b))))
        out = []
        for nm, fn, ar, kind, ty in fams:
            qs = [u, v, i][:ar] if ar != 1 else [i]
            t = fn(*qs)
            out.append(z3.ForAll(qs, z3.Implies(preds[kind](*qs), z3.And(0 <= t, t <= wmax, *([z3.IsInt(t)] if type_of(ty) == "integer" else [])))))
        return z3.And(*out)

    def common_me(me, sol, k, wmax, cyc=False):
        me.solver = sol
        me.k, me.w_max, me.flow_attr = k, Sym(wmax), "flow"
        me.weight_type = BUILTINS["int"] if wt is int else BUILTINS["float"]
        me.path_length_factors, me.path_length_ranges = [], []
        for a in ("pi_vars", "path_weights_vars", "edge_errors_vars", "gamma_vars", "path_slacks_vars"):
            setattr(me, a, {})

    def h(c, f):
        abstract_mul(c)
        g = Graph(c)
        k = c.fresh_const("k", INT)
        wmax = c.fresh_const("w_max", REAL)
        c.assume(z3.And(k >= 1, wmax >= 0))
        st.update(g=g, k=k)
        st["SUM"] = {nm: prefix_sum(c, cname, (lambda fn: lambda u, v, q: fn(u, v, q))(fn), 2) for nm, (fn, cname) in summed.items()}
        edge_idx = IdxSet("edge_indexes", lambda u, v, i: z3.And(g.EDGE(u, v), i >= 0, i < k), 3)
        path_idx = IdxSet("path_indexes", lambda i: z3.And(i >= 0, i < k), 1)

        class Me(Tracked):
            pass
        me = Me()
        sol = Solver({nm: (fn, ar) for nm, fn, ar, kind, ty in fams})
        sol.graph = g
        sol.basic_pred = lambda a, b: z3.And(g.EDGE(a, b), z3.Not(IGN(a, b)))

        def linked_sum(it):
            r = Solver.quicksum(sol, it)
            bs = c.sums[-1]
            j = z3.Int(c.name("tj"))
            t = bs.t(j)
            ok = z3.is_app(t) and t.decl().name() in summed and t.decl().eq(summed[t.decl().name()][0]) and z3.simplify(t.arg(2)).eq(j) and c._valid(bs.n == k)
            if not ok:
                raise Unsupported("sum over something else than a declared column family over i < k: term %s, length %s" % (t, bs.n))
            u, v = t.arg(0), t.arg(1)
            fn, S = summed[t.decl().name()][0], st["SUM"][t.decl().name()]
            link_sum(c, "sum-built-by-the-code=sum-over-i<k-of-%s(u,v,i)" % t.decl().name(), lambda q: S(u, v, q),
                     lambda jj: z3.Implies(jj >= 0, S(u, v, jj + 1) == S(u, v, jj) + fn(u, v, jj)), k, prop=P)
            return r
        sol.quicksum = linked_sum
        st["sum_builtin"] = linked_sum
        common_me(me, sol, Sym(k), wmax)
        me.G = g
        me.edge_indexes, me.path_indexes = edge_idx, path_idx
        me.edge_vars = VarMap("edge_vars", X, edge_idx.pred, 3)
        me.edges_to_ignore = Member(IGN, "ignored")
        me.edges_set_to_zero = Member(ZERO, "set-to-zero")
        me.edges_set_to_one = Member(ONE, "set-to-one")
        me.edge_error_scaling = ScaleMap()
        for a, b in (extra_attrs or {}).items():
            setattr(me, a, b)
        solved = c.fresh_const("already_solved", BOOL)
        me.is_solved = lambda: c.decide(solved, "already-solved")
        H0 = lift(sol.store.holds)
        st["H1"] = H0
        u, v, i = z3.Ints("hu hv hi")
        # requires (established by _encode_paths and the safety fixing, which add these rows): under the rows so far every edge variable is 0/1,
        # the ones recorded in edges_set_to_zero / edges_set_to_one are 0 / 1
        xdom = (lambda t: z3.And(z3.IsInt(t), 0 <= t, t <= wmax)) if cyc else (lambda t: z3.Or(t == 0, t == 1))
        c.assume(z3.Implies(H0, z3.ForAll([u, v, i], z3.Implies(edge_idx.pred(u, v, i), z3.And(xdom(X(u, v, i)),
                                                                                               z3.Implies(ZERO(u, v, i), X(u, v, i) == 0),
                                                                                               z3.Implies(z3.And(ONE(u, v, i), z3.Not(ZERO(u, v, i))), X(u, v, i) == 1))))))
        orig_add = sol.add_variables

        def add_variables(*a, **kw):
            r = orig_add(*a, **kw)
            st["H1"] = lift(sol.store.holds)
            return r
        sol.add_variables = add_variables
        f(me)
        H = lift(sol.store.holds)
        if guard_solved and c.decide(solved, "already-solved"):
            c.prove("post:already-solved(greedy)=>no-row-and-no-column-is-added", z3.BoolVal(H.eq(H0) and not sol.created), prop=P)
            return
        want = {nm: type_of(ty) for nm, fn, ar, kind, ty in fams}
        c.prove("post:exactly-the-declared-column-families-are-created,-each-with-bounds-[0,w_max]-and-its-numeric-type",
                z3.BoolVal({nm: r["var_type"] for nm, r in sol.created.items()} == want), prop=P)
        spec = z3.ForAll([u, v], z3.Implies(z3.And(g.EDGE(u, v), z3.Not(IGN(u, v))), rows_sym(g, k, u, v)))
        full = z3.And(H0, bounds_sym(c, g, k, wmax), spec)
        c.prove("post:SOUND-every-admitted-assignment-satisfies-on-each-non-ignored-edge: " + what, z3.Implies(H, full), prop=P)
        c.prove("post:COMPLETE-nothing-else-is-excluded", z3.Implies(full, H), prop=None, kind="complete")

    def concrete(inst):
        """the same contract on a concrete graph / k / fixings: rows are a finite conjunction, the clause is quantifier-free"""
        def hc(c, f):
            E, k = [tuple(e) for e in inst["edges"]], inst["k"]
            ign, zero, one = set(map(tuple, inst.get("ign", ()))), set(map(tuple, inst.get("zero", ()))), set(map(tuple, inst.get("one", ())))
            wmax = c.fresh_const("w_max", REAL)
            c.assume(wmax >= 0)

            class Data:
                def __init__(self, u, v): self.u, self.v = u, v
                def __getitem__(self, key): return Sym(FLOWC(self.u, self.v))

            class G:
                def edges(self, data=False):
                    return [(u, v, Data(u, v)) for u, v in E] if data else list(E)
            members = [(u, v, i) for i in range(k) for (u, v) in E]
            edge_idx, path_idx = concrete_idx("edge_indexes", members, 3), concrete_idx("path_indexes", [(i,) for i in range(k)], 1)

            class Me(Tracked):
                pass
            me = Me()
            sol = Solver({nm: (fn, ar) for nm, fn, ar, kind, ty in fams})
            common_me(me, sol, k, wmax)
            me.G = G()
            me.edge_indexes, me.path_indexes = edge_idx, path_idx
            me.edge_vars = VarMap("edge_vars", X, edge_idx.pred, 3)
            me.edges_to_ignore, me.edges_set_to_zero, me.edges_set_to_one = ign, {z: True for z in zero}, {o: True for o in one}
            me.edge_error_scaling = CScaleMap()
            for a, b in (extra_attrs or {}).items():
                setattr(me, a, b)
            me.is_solved = lambda: False
            H0 = lift(sol.store.holds)
            xdom = (lambda t: z3.And(z3.IsInt(t), 0 <= t, t <= wmax)) if cyc else (lambda t: z3.Or(t == 0, t == 1))
            c.assume(z3.Implies(H0, z3.And(*[z3.And(xdom(X(u, v, i)),
                                                   X(u, v, i) == 0 if (u, v, i) in zero else z3.BoolVal(True),
                                                   X(u, v, i) == 1 if ((u, v, i) in one and (u, v, i) not in zero) else z3.BoolVal(True)) for (u, v, i) in members])))
            f(me)
            H = lift(sol.store.holds)
            basic = [e for e in E if e not in ign]
            dom = dict(edge=members, path=[(i,) for i in range(k)], basic=basic)
            bnd = []
            for nm, fn, ar, kind, ty in fams:
                for m in dom[kind]:
                    t = fn(*m)
                    bnd.append(z3.And(0 <= t, t <= wmax, *([z3.IsInt(t)] if type_of(ty) == "integer" else [])))
            spec = []
            for (u, v) in basic:
                S = {nm: sum([fn(u, v, i) for i in range(k)], z3.RealVal(0)) for nm, (fn, cname) in summed.items()}
                spec.append(z3.And(edge_rows(u, v, S, FLOWC(u, v)), *[pr(u, v, i) for pr in products for i in range(k)]))
            full = z3.And(H0, *bnd, *spec)
            c.prove("instance:SOUND-every-admitted-assignment-satisfies-the-specified-rows-on-each-non-ignored-edge", z3.Implies(H, full), prop=P)
            c.prove("instance:COMPLETE-nothing-else-is-excluded", z3.Implies(full, H), prop=None, kind="complete")
        return hc

    def instances():
        out = []
        for lab, inst in (("path-of-2-edges,k=2", dict(edges=[(0, 1), (1, 2)], k=2)),
                          ("path-of-2-edges,k=2,one-ignored", dict(edges=[(0, 1), (1, 2)], k=2, ign=[(1, 2)])),
                          ("diamond,k=2,with-zero-and-one-fixings", dict(edges=[(0, 1), (0, 2), (1, 3), (2, 3)], k=2, zero=[(0, 1, 1), (1, 3, 1)], one=[(0, 2, 1)])),
                          ("single-edge,k=1", dict(edges=[(0, 1)], k=1)),
                          ("single-edge,k=3,fixings-overlap", dict(edges=[(0, 1)], k=3, zero=[(0, 1, 2)], one=[(0, 1, 0), (0, 1, 2)]))):
            out.append((lab, concrete(inst)))
        return out

    fresh = lambda old: Sym(z3.Bool(core.ctx().name("H")))
    mod = [(("self", "solver", "store", "holds"), fresh)]
    loops = {outer: dict(inv=inv_outer, prop=P, modifies=mod, keep=("u", "v", "data", "f_u_v", "i", "slack_var", "edge_error_scaling_u_v"))}
    for o, pr in enumerate(products):
        oe, iv = mk_inner(pr, o + 1)
        loops[outer + o + 1] = dict(inv=iv, prop=P, on_entry=oe, modifies=mod, keep=("i", "slack_var"), bind_target_at_exit=True)

    def sum_builtin(it, start=0):
        return st["sum_builtin"](it) if "sum_builtin" in st and not isinstance(it, (list, tuple)) and core.ctx() is not None and not _is_concrete(it) else Solver.quicksum(None, it)
    return Unit(relpath, qualname, h, globs=dict(utils=UtilsStub, sum=sum_builtin), loops=split_loops(loops, P), props=[P],
                name="%s:%s[weight_type=%s]" % (relpath, qualname, wt.__name__), instances=instances,
                callee_contracts=[A1C], assumptions=[A3, ("requires: the rows / column bounds added before (by _encode_walks / safety fixing) make every edge variable an integer in [0, w_max] and force the recorded zero / one "
                                                         "fixings; `holds` is the projection onto the model's own columns (the product helper's bit and component columns are existentially quantified, as in its C12 contract). "
                                                         "Where the model's repetition cap exceeds w_max the helper caps the multiplicity further: that is the open known finding (D16/D21), outside this contract")
                                                     if cyc else "requires: the rows added before (by _encode_paths / safety fixing) force every edge variable into {0,1} and the recorded zero / one fixings"])


def _is_concrete(it):
    import types
    return isinstance(it, (list, tuple, types.GeneratorType))


def dag_units():
    out = []
    for wt in (int, float):
        prod_pi = lambda u, v, i: PI(u, v, i) == mul(X(u, v, i), W(i))
        prod_gamma = lambda u, v, i: GAMMA(u, v, i) == mul(X(u, v, i), SLACK(i))
        # E1 flow decomposition (C02)
        out.append(edge_encoder("flowpaths/kflowdecomp.py", "kFlowDecomp._encode_flow_decomposition", "C02", wt,
                                fams=[("pi", PI, 3, "edge", "wt"), ("w", W, 1, "path", "wt")], products=[prod_pi], summed={"pi_var": (PI, "sum_pi")},
                                edge_rows=lambda u, v, S, fl: S["pi_var"] == fl, guard_solved=True,
                                what="sum_i pi(u,v,i) = flow(u,v) and pi(u,v,i) = x(u,v,i)*w(i)  (the edge is explained exactly)"))
        # E2 least absolute errors (C07)
        out.append(edge_encoder("flowpaths/kleastabserrors.py", "kLeastAbsErrors._encode_leastabserrors_decomposition", "C07", wt,
                                fams=[("pi", PI, 3, "edge", "wt"), ("weights", W, 1, "path", "wt"), ("ee", EE, 2, "basic", "wt")], products=[prod_pi], summed={"pi_var": (PI, "sum_pi")},
                                edge_rows=lambda u, v, S, fl: z3.And(fl - S["pi_var"] <= EE(u, v), S["pi_var"] - fl <= EE(u, v)),
                                what="pi(u,v,i) = x(u,v,i)*w(i) and ee(u,v) >= |flow(u,v) - sum_i pi(u,v,i)|  (the error column bounds the absolute error from above)"))
        # E3 min path error (C08), no path-length scaling
        out.append(edge_encoder("flowpaths/kminpatherror.py", "kMinPathError._encode_minpatherror_decomposition", "C08", wt,
                                fams=[("weights", W, 1, "path", "wt"), ("pi", PI, 3, "edge", "wt"), ("slack", SLACK, 1, "path", "wt"), ("gamma", GAMMA, 3, "edge", "continuous")],
                                products=[prod_pi, prod_gamma], summed={"pi_var": (PI, "sum_pi"), "gamma_var": (GAMMA, "sum_gamma")},
                                edge_rows=lambda u, v, S, fl: z3.And(lift(Sym(fl - S["pi_var"]) * Sym(SCALE(u, v)) <= Sym(S["gamma_var"])), lift(Sym(fl - S["pi_var"]) * Sym(SCALE(u, v)) >= -Sym(S["gamma_var"]))), outer=2,
                                what="pi = x*w, gamma(u,v,i) = x(u,v,i)*slack(i) and |flow(u,v) - sum_i pi(u,v,i)| * scale(u,v) <= sum_i gamma(u,v,i)  (the slacks of the paths through the edge pay for its error)"))
    return out


def cyc_units():
    out = []
    for wt in (int, float):
        prod_pi = lambda u, v, i: PI(u, v, i) == mul(X(u, v, i), W(i))
        prod_gamma = lambda u, v, i: GAMMA(u, v, i) == mul(X(u, v, i), SLACK(i))
        out.append(edge_encoder("flowpaths/kflowdecompcycles.py", "kFlowDecompCycles._encode_flow_decomposition", "C02", wt, cyc=True,
                                fams=[("pi", PI, 3, "edge", "wt"), ("weights", W, 1, "path", "wt")], products=[prod_pi], summed={"pi_var": (PI, "sum_pi")},
                                edge_rows=lambda u, v, S, fl: S["pi_var"] == fl,
                                what="sum_i pi(u,v,i) = flow(u,v) and pi(u,v,i) = multiplicity(u,v,i)*w(i)  (the edge is explained exactly, with multiplicities)"))
        out.append(edge_encoder("flowpaths/kleastabserrorscycles.py", "kLeastAbsErrorsCycles._encode_leastabserrors_decomposition", "C07", wt, cyc=True,
                                fams=[("pi", PI, 3, "edge", "wt"), ("weights", W, 1, "path", "wt"), ("ee", EE, 2, "basic", "wt")], products=[prod_pi], summed={"pi_var": (PI, "sum_pi")},
                                edge_rows=lambda u, v, S, fl: z3.And(fl - S["pi_var"] <= EE(u, v), S["pi_var"] - fl <= EE(u, v)),
                                what="pi(u,v,i) = multiplicity(u,v,i)*w(i) and ee(u,v) >= |flow(u,v) - sum_i pi(u,v,i)|"))
        out.append(edge_encoder("flowpaths/kminpatherrorcycles.py", "kMinPathErrorCycles._encode_minpatherror_decomposition", "C08", wt, cyc=True,
                                fams=[("weights", W, 1, "path", "wt"), ("pi", PI, 3, "edge", "wt"), ("slack", SLACK, 1, "path", "wt"), ("gamma", GAMMA, 3, "edge", "continuous")],
                                products=[prod_pi, prod_gamma], summed={"pi_var": (PI, "sum_pi"), "gamma_var": (GAMMA, "sum_gamma")},
                                edge_rows=lambda u, v, S, fl: z3.And(lift(Sym(fl - S["pi_var"]) * Sym(SCALE(u, v)) <= Sym(S["gamma_var"])), lift(Sym(fl - S["pi_var"]) * Sym(SCALE(u, v)) >= -Sym(S["gamma_var"]))),
                                what="pi = multiplicity*w, gamma(u,v,i) = multiplicity(u,v,i)*slack(i) and |flow(u,v) - sum_i pi(u,v,i)| * scale(u,v) <= sum_i gamma(u,v,i)"))
    return out


# =====================================================================================================================
# MinErrorFlow._encode_flow (C16): every admitted assignment is a flow (conservation at every inner node) whose error columns bound |flow - x|

def u_min_error_flow(wt):
    P = "C16"
    XV = z3.Function("corrected_flow_var", INT, INT, REAL)
    ER = z3.Function("edge_error_var", INT, INT, REAL)
    NODE = z3.Function("node_at", INT, INT)
    INDEG, OUTDEG = z3.Function("in_degree", INT, INT), z3.Function("out_degree", INT, INT)
    INU, OUTV = z3.Function("in_neighbour", INT, INT, INT), z3.Function("out_neighbour", INT, INT, INT)
    HAS = z3.Function("has_flow_attr", INT, INT, BOOL)
    st = {}

    def conserve(v):
        return st["INSUM"](v, INDEG(v)) == st["OUTSUM"](v, OUTDEG(v))

    def interior(v):
        return z3.And(INDEG(v) != 0, OUTDEG(v) != 0)

    def erow(g, u, v):
        return z3.If(IGN(u, v), ER(u, v) == 0, z3.And(g.FLOW(u, v) - XV(u, v) <= ER(u, v), XV(u, v) - g.FLOW(u, v) <= ER(u, v)))

    def inv_nodes(ns, seq, done):
        j = z3.Int("nj")
        return {"rows-so-far=exactly-conservation-at-the-inner-nodes-seen":
                lift(ns["self"].solver.store.holds) == z3.And(st["H1"], z3.ForAll([j], z3.Implies(z3.And(j >= 0, j < lift(done), interior(NODE(j))), conserve(NODE(j)))))}

    def on_entry_edges(ns, it=None):
        st["H2"] = lift(ns["self"].solver.store.holds)

    def inv_edges(ns, seq, done):
        g = st["g"]
        j = z3.Int("ej")
        return {"rows-so-far=exactly-(error-rows)-on-the-edges-seen-and-every-non-ignored-edge-seen-has-a-value":
                z3.And(lift(ns["self"].solver.store.holds) == z3.And(st["H2"], z3.ForAll([j], z3.Implies(z3.And(j >= 0, j < lift(done)), erow(g, g.EU(j), g.EV(j))))),
                       z3.ForAll([j], z3.Implies(z3.And(j >= 0, j < lift(done), z3.Not(IGN(g.EU(j), g.EV(j)))), HAS(g.EU(j), g.EV(j)))))}

    def h(c, f):
        g = Graph(c)
        st["g"] = g
        nn = c.fresh_const("n_nodes", INT)
        ub = c.fresh_const("ub", REAL)
        c.assume(z3.And(nn >= 0, ub >= 0))
        v, j, u = z3.Ints("hv hj hu")
        # A2: in_edges(v) / out_edges(v) enumerate exactly the edges into / out of v, each once
        c.assume(z3.ForAll([v], z3.And(INDEG(v) >= 0, OUTDEG(v) >= 0)))
        c.assume(z3.ForAll([v, j], z3.Implies(z3.And(j >= 0, j < INDEG(v)), g.EDGE(INU(v, j), v))))
        c.assume(z3.ForAll([v, j], z3.Implies(z3.And(j >= 0, j < OUTDEG(v)), g.EDGE(v, OUTV(v, j)))))
        st["INSUM"] = prefix_sum(c, "inflow_of_node", lambda a, q: XV(INU(a, q), a), 1)
        st["OUTSUM"] = prefix_sum(c, "outflow_of_node", lambda a, q: XV(a, OUTV(a, q)), 1)
        from pyvc.heap import STuple

        class GG:
            source, sink = g.source, g.sink
            def edges(self, data=False):
                if data:
                    return SymSeq(g.n, lambda q: (Sym(g.EU(lift(q))), Sym(g.EV(lift(q))), DataA(g.EU(lift(q)), g.EV(lift(q)))), None, "edges")
                return g.edges()
            def nodes(self): return SymSeq(nn, lambda q: Sym(NODE(lift(q))), SInt, "nodes")
            def in_degree(self, a):
                st["node"] = lift(a)          # the node of the current iteration (the sums below are over its edges)
                return Sym(INDEG(lift(a)))
            def out_degree(self, a): return Sym(OUTDEG(lift(a)))
            def in_edges(self, a): return SymSeq(INDEG(lift(a)), lambda q: (Sym(INU(lift(a), lift(q))), a), STuple(SInt, SInt), "in_edges")
            def out_edges(self, a): return SymSeq(OUTDEG(lift(a)), lambda q: (a, Sym(OUTV(lift(a), lift(q)))), STuple(SInt, SInt), "out_edges")

        class DataA:
            def __init__(self, a, b): self.a, self.b = a, b
            def __contains__(self, key): return core.ctx().decide(HAS(self.a, self.b), "has-flow-attr")
            def __getitem__(self, key):
                core.ctx().prove("pre:data[flow_attr]-only-where-the-value-exists", HAS(self.a, self.b), kind="pre")
                return Sym(g.FLOW(self.a, self.b))

        class Me(Tracked):
            pass
        me = Me()
        sol = Solver({"edge_vars": (XV, 2), "edge_error_vars": (ER, 2)})
        sol.graph, sol.basic_pred = g, (lambda a, b: z3.And(g.EDGE(a, b), z3.Not(IGN(a, b))))

        def linked_sum(it):
            r = Solver.quicksum(sol, it)
            bs = c.sums[-1]
            jj = z3.Int(c.name("tj"))
            t = bs.t(jj)
            node = st.get("node")
            for S, term, deg in ((st["INSUM"], lambda q: XV(INU(node, q), node), INDEG(node)), (st["OUTSUM"], lambda q: XV(node, OUTV(node, q)), OUTDEG(node))):
                if c._valid(z3.And(bs.n == deg, t == term(jj))):
                    link_sum(c, "sum-built-by-the-code=flow-%s-the-node" % ("into" if S is st["INSUM"] else "out-of"), lambda q: S(node, q),
                             lambda q: z3.Implies(q >= 0, S(node, q + 1) == S(node, q) + term(q)), deg, prop=P)
                    return r
            raise Unsupported("sum over something else than the in- / out-edges of the current node: %s" % t)
        sol.quicksum = linked_sum
        orig_add = sol.add_variables

        def add_variables(*a, **kw):
            r = orig_add(*a, **kw)
            st["H1"] = lift(sol.store.holds)
            return r
        sol.add_variables = add_variables
        me.solver, me.G, me.ub, me.flow_attr = sol, GG(), Sym(ub), "flow"
        me.weight_type = BUILTINS["int"] if wt is int else BUILTINS["float"]
        me.edges_to_ignore = Member(IGN, "ignored")
        me.edge_vars, me.edge_error_vars = {}, {}
        H0 = lift(sol.store.holds)
        try:
            f(me)
        except ValueError:
            c.prove("xpost:ValueError-only-if-a-non-ignored-edge-has-no-value", z3.Exists([u, v], z3.And(g.EDGE(u, v), z3.Not(IGN(u, v)), z3.Not(HAS(u, v)))), prop=P, kind="xpost")
            return
        H = lift(sol.store.holds)
        num = lambda t: z3.And(0 <= t, t <= ub, *([z3.IsInt(t)] if wt is int else []))
        bnd = z3.ForAll([u, v], z3.Implies(g.EDGE(u, v), z3.And(num(XV(u, v)), num(ER(u, v)))))
        spec = z3.And(z3.ForAll([j], z3.Implies(z3.And(j >= 0, j < nn, interior(NODE(j))), conserve(NODE(j)))),
                      z3.ForAll([u, v], z3.Implies(g.EDGE(u, v), erow(g, u, v))))
        full = z3.And(H0, bnd, spec)
        c.prove("post:one-corrected-flow-column-and-one-error-column-per-edge,-in-[0,ub],-of-the-requested-numeric-type",
                z3.BoolVal({nm: r["var_type"] for nm, r in sol.created.items()} == {"edge_vars": "integer" if wt is int else "continuous", "edge_error_vars": "integer" if wt is int else "continuous"}
                           and all(r["indexes"].name == "all_edges" for r in sol.created.values())), prop=P)
        c.prove("post:SOUND-every-admitted-assignment-conserves-flow-at-every-inner-node-and-its-error-columns-bound-|value - corrected|-(0-on-ignored-edges)", z3.Implies(H, full), prop=P)
        c.prove("post:COMPLETE-nothing-else-is-excluded", z3.Implies(full, H), prop=None, kind="complete")
        c.prove("post:normal-return-only-if-every-non-ignored-edge-has-a-value", z3.ForAll([u, v], z3.Implies(z3.And(g.EDGE(u, v), z3.Not(IGN(u, v))), HAS(u, v))), prop=P)

    def concrete(inst):
        def hc(c, f):
            E = [tuple(e) for e in inst["edges"]]
            ign, missing = set(map(tuple, inst.get("ign", ()))), set(map(tuple, inst.get("missing", ())))
            nodes = sorted({a for e in E for a in e})
            ub = c.fresh_const("ub", REAL)
            c.assume(ub >= 0)

            class Data(dict):
                pass

            class GG:
                def edges(self, data=False):
                    return [(a, b, Data({} if (a, b) in missing else {"flow": Sym(FLOWC(a, b))})) for a, b in E] if data else list(E)
                def nodes(self): return list(nodes)
                def in_degree(self, a): return sum(1 for e in E if e[1] == a)
                def out_degree(self, a): return sum(1 for e in E if e[0] == a)
                def in_edges(self, a): return [e for e in E if e[1] == a]
                def out_edges(self, a): return [e for e in E if e[0] == a]

            class Me(Tracked):
                pass
            me = Me()
            sol = Solver({"edge_vars": (XV, 2), "edge_error_vars": (ER, 2)})
            me.solver, me.G, me.ub, me.flow_attr = sol, GG(), Sym(ub), "flow"
            me.weight_type = BUILTINS["int"] if wt is int else BUILTINS["float"]
            me.edges_to_ignore = ign
            me.edge_vars, me.edge_error_vars = {}, {}
            H0 = lift(sol.store.holds)
            must_raise = any(e not in ign for e in missing)
            try:
                f(me)
            except ValueError:
                c.prove("instance:ValueError-only-if-a-non-ignored-edge-has-no-value", z3.BoolVal(must_raise), prop=P)
                return
            c.prove("instance:normal-return-only-if-every-non-ignored-edge-has-a-value", z3.BoolVal(not must_raise), prop=P)
            H = lift(sol.store.holds)
            num = lambda t: z3.And(0 <= t, t <= ub, *([z3.IsInt(t)] if wt is int else []))
            rows = [z3.And(num(XV(a, b)), num(ER(a, b))) for a, b in E]
            for v in nodes:
                ins, outs = [e for e in E if e[1] == v], [e for e in E if e[0] == v]
                if ins and outs:
                    rows.append(sum([XV(*e) for e in ins], z3.RealVal(0)) == sum([XV(*e) for e in outs], z3.RealVal(0)))
            for a, b in E:
                rows.append(ER(a, b) == 0 if (a, b) in ign else z3.And(FLOWC(a, b) - XV(a, b) <= ER(a, b), XV(a, b) - FLOWC(a, b) <= ER(a, b)))
            full = z3.And(H0, *rows)
            c.prove("instance:SOUND-every-admitted-assignment-conserves-flow-at-every-inner-node-and-its-error-columns-bound-the-change", z3.Implies(H, full), prop=P)
            c.prove("instance:COMPLETE-nothing-else-is-excluded", z3.Implies(full, H), prop=None, kind="complete")
        return hc

    def instances():
        return [(lab, concrete(inst)) for lab, inst in (
            ("path-of-3-edges", dict(edges=[(0, 1), (1, 2), (2, 3)])),
            ("diamond-with-a-chord,one-ignored", dict(edges=[(0, 1), (0, 2), (1, 2), (1, 3), (2, 3)], ign=[(1, 2)])),
            ("cycle-with-entry-and-exit", dict(edges=[(0, 1), (1, 2), (2, 1), (2, 3)])),
            ("self-loop", dict(edges=[(0, 1), (1, 1), (1, 2)])),
            ("value-missing-on-an-ignored-edge", dict(edges=[(0, 1), (1, 2)], ign=[(1, 2)], missing=[(1, 2)])),
            ("value-missing-on-a-non-ignored-edge", dict(edges=[(0, 1), (1, 2)], missing=[(1, 2)])))]

    fresh = lambda old: Sym(z3.Bool(core.ctx().name("H")))
    mod = [(("self", "solver", "store", "holds"), fresh)]

    loops = {0: dict(inv=inv_nodes, prop=P, modifies=mod, keep=("node",)),
             1: dict(inv=inv_edges, prop=P, on_entry=on_entry_edges, modifies=mod, keep=("u", "v", "data", "f_u_v"))}

    unit = Unit("flowpaths/minerrorflow.py", "MinErrorFlow._encode_flow", h, globs=dict(utils=UtilsStub), loops=split_loops(loops, P), props=[P],
                name="flowpaths/minerrorflow.py:MinErrorFlow._encode_flow[weight_type=%s]" % wt.__name__, callee_contracts=[A1C], instances=instances,
                assumptions=[A3, "A2 networkx: in_edges(v) / out_edges(v) enumerate the edges into / out of v; in_degree / out_degree are their counts"])
    return unit


# =====================================================================================================================
# AbstractPathModelDAG._encode_paths (C01: a layer of the admitted assignment is a unit source-to-sink flow of 0/1 edge indicators;
#                                     C10: every sub-path constraint is covered to the requested amount by the layer responsible for it)

def u_encode_paths(allow_empty):
    P = "C01,C10"
    XP = X
    R = z3.Function("r_subpath_var", INT, INT, REAL)                       # r[(i, j)]: layer i is responsible for constraint j
    NODE = z3.Function("node_at", INT, INT)
    INDEG, OUTDEG = z3.Function("in_degree", INT, INT), z3.Function("out_degree", INT, INT)
    PRED, SUCC = z3.Function("pred_of", INT, INT, INT), z3.Function("succ_of", INT, INT, INT)
    CL = z3.Function("constraint_len", INT, INT)
    CU, CV = z3.Function("constraint_edge_tail", INT, INT, INT), z3.Function("constraint_edge_head", INT, INT, INT)
    st = {}

    def src_row(i):
        t = st["OUT"](st["src"], i, OUTDEG(st["src"]))
        return t <= 1 if allow_empty else t == 1

    def cons_row(v, i):
        return st["IN"](v, i, INDEG(v)) - st["OUT"](v, i, OUTDEG(v)) == 0

    def inner_node(v):
        return z3.And(v != st["src"], v != st["snk"])

    def cov_row(i, j):
        return lift(Sym(st["CS"](j, i, CL(j))) >= Sym(CL(j)) * Sym(st["cov"]) * Sym(R(i, j)))

    def resp_row(j):
        return st["RS"](j, st["k"]) >= 1

    def eqv(ns, entry, body):
        return lift(ns["self"].solver.store.holds) == z3.And(st[entry], body)

    def snap(name, more=()):
        def on_entry(ns, it=None):
            st[name] = lift(ns["self"].solver.store.holds)
            for a in more:
                st["cur_" + a] = lift(ns[a])
        return on_entry

    i_, j_, t_ = z3.Ints("qi qj qt")
    rng = lambda q, hi: z3.And(q >= 0, q < lift(hi))

    def inv0(ns, seq, done):
        return {"rows-so-far=one-unit-(at-most-one-if-empty-paths-are-allowed)-leaves-the-source-in-every-layer-seen": eqv(ns, "H_l0", z3.ForAll([i_], z3.Implies(rng(i_, done), src_row(i_))))}

    def inv1(ns, seq, done):
        return {"rows-so-far=conservation-at-every-inner-node-in-every-layer-seen":
                eqv(ns, "H_l1", z3.ForAll([i_, j_], z3.Implies(z3.And(rng(i_, done), rng(j_, st["nn"]), inner_node(NODE(j_))), cons_row(NODE(j_), i_))))}

    def inv2(ns, seq, done):
        i = st["cur_i"]
        return {"rows-so-far=conservation-at-the-inner-nodes-seen-in-this-layer": eqv(ns, "H_l2", z3.ForAll([j_], z3.Implies(z3.And(rng(j_, done), inner_node(NODE(j_))), cons_row(NODE(j_), i))))}

    def inv3(ns, seq, done):
        return {"rows-so-far=coverage-row-of-every-constraint-in-every-layer-seen": eqv(ns, "H_l3", z3.ForAll([i_, j_], z3.Implies(z3.And(rng(i_, done), rng(j_, st["m"])), cov_row(i_, j_))))}

    def inv4(ns, seq, done):
        i = st["cur_i"]
        return {"rows-so-far=coverage-row-of-the-constraints-seen-in-this-layer": eqv(ns, "H_l4", z3.ForAll([j_], z3.Implies(rng(j_, done), cov_row(i, j_))))}

    def inv5(ns, seq, done):
        return {"rows-so-far=some-layer-is-responsible-for-every-constraint-seen": eqv(ns, "H_l5", z3.ForAll([j_], z3.Implies(rng(j_, done), resp_row(j_))))}

    def h(c, f):
        abstract_mul(c)
        g = Graph(c)
        k, nn, m = c.fresh_const("k", INT), c.fresh_const("n_nodes", INT), c.fresh_const("n_constraints", INT)
        cov = c.fresh_const("coverage", REAL)
        c.assume(z3.And(k >= 1, nn >= 0, m >= 0, cov > 0, cov <= 1))
        src, snk = g.source.t, g.sink.t
        st.update(g=g, k=k, nn=nn, m=m, cov=cov, src=src, snk=snk)
        v, q, jj = z3.Ints("hv hq hj")
        c.assume(z3.ForAll([v], z3.And(INDEG(v) >= 0, OUTDEG(v) >= 0)))
        c.assume(z3.ForAll([v, q], z3.Implies(z3.And(q >= 0, q < INDEG(v)), g.EDGE(PRED(v, q), v))))          # A2: predecessors / successors enumerate edges
        c.assume(z3.ForAll([v, q], z3.Implies(z3.And(q >= 0, q < OUTDEG(v)), g.EDGE(v, SUCC(v, q)))))
        c.assume(z3.ForAll([jj], z3.Implies(z3.And(jj >= 0, jj < m), CL(jj) >= 1)))
        c.assume(z3.ForAll([jj, q], z3.Implies(z3.And(jj >= 0, jj < m, q >= 0, q < CL(jj)), g.EDGE(CU(jj, q), CV(jj, q)))))   # requires: constraint edges are edges (validated by the constructor, C19)
        st["OUT"] = prefix_sum(c, "outflow", lambda a, i, q: XP(a, SUCC(a, q), i), 2)
        st["IN"] = prefix_sum(c, "inflow", lambda a, i, q: XP(PRED(a, q), a, i), 2)
        st["CS"] = prefix_sum(c, "constraint_edges_used", lambda j, i, q: XP(CU(j, q), CV(j, q), i), 2)
        st["RS"] = prefix_sum(c, "responsible_layers", lambda j, q: R(q, j), 1)
        edge_pred = lambda a, b, i: z3.And(g.EDGE(a, b), i >= 0, i < k)
        sub_pred = lambda i, j: z3.And(i >= 0, i < k, j >= 0, j < m)

        class GG:
            source, sink = g.source, g.sink
            def edges(self, data=False): return g.edges(data)
            @property
            def nodes(self): return SymSeq(nn, lambda q: Sym(NODE(lift(q))), SInt, "nodes")
            def successors(self, a): return SymSeq(OUTDEG(lift(a)), lambda q: Sym(SUCC(lift(a), lift(q))), SInt, "successors")
            def predecessors(self, a): return SymSeq(INDEG(lift(a)), lambda q: Sym(PRED(lift(a), lift(q))), SInt, "predecessors")
            def number_of_nodes(self): return Sym(nn)

        class Me(Tracked):
            pass
        me = Me()
        sol = Solver({"edge": (XP, 3), "r": (R, 2)})
        sol.graph, sol.basic_pred = g, (lambda a, b: g.EDGE(a, b))

        def recognise(indexes, name_prefix):
            """the index lists built by comprehensions: checked at Skolem positions, then replaced by their index set"""
            if isinstance(indexes, LazyProduct):
                a0, b0 = c.fresh_const("arbitrary_layer", INT), c.fresh_const("arbitrary_position", INT)
                it1 = indexes.it1
                if not (isinstance(it1, SymRange) and c._valid(lift(it1.length()) == k)):
                    raise Unsupported("product index list: outer iterable is not range(k)")
                c.assume(z3.And(a0 >= 0, a0 < k))
                x1 = it1.at(a0)
                it2 = indexes.it2fn(x1)
                n2 = lift(it2.length())
                c.assume(z3.And(b0 >= 0, b0 < n2))
                key = indexes.fn(x1)(it2.at(b0))
                if name_prefix == "edge" and len(key) == 3 and c._valid(z3.And(n2 == g.n, lift(key[0]) == g.EU(b0), lift(key[1]) == g.EV(b0), lift(key[2]) == a0)):
                    return IdxSet("edge_indexes", edge_pred, 3)
                if name_prefix == "r" and len(key) == 2 and c._valid(z3.And(n2 == m, lift(key[0]) == a0, lift(key[1]) == b0)):
                    return IdxSet("subpath_indexes", sub_pred, 2)
                raise Unsupported("product index list not recognised")
            return indexes
        orig_add = sol.add_variables

        def add_variables(indexes, name_prefix="", lb=0, ub=1, var_type="integer"):
            return orig_add(recognise(indexes, name_prefix), name_prefix=name_prefix, lb=lb, ub=ub, var_type=var_type)
        sol.add_variables = add_variables

        def linked_sum(it):
            r = Solver.quicksum(sol, it)
            bs = c.sums[-1]
            tj = z3.Int(c.name("tj"))
            t = bs.t(tj)
            cands = []
            if z3.is_app(t) and t.decl().eq(XP):
                a, b, i = t.arg(0), t.arg(1), t.arg(2)
                cands.append((c._valid(z3.And(b == SUCC(a, tj), bs.n == OUTDEG(a))) if True else False, st["OUT"], (a, i), lambda q: XP(a, SUCC(a, q), i), OUTDEG(a), "flow-out-of-the-node-in-the-layer"))
                cands.append((None, st["IN"], (b, i), lambda q: XP(PRED(b, q), b, i), INDEG(b), "flow-into-the-node-in-the-layer"))
                if z3.is_app(a) and a.decl().eq(CU):
                    jt = a.arg(0)
                    cands.append((None, st["CS"], (jt, i), lambda q: XP(CU(jt, q), CV(jt, q), i), CL(jt), "constraint-edges-used-by-the-layer"))
            elif z3.is_app(t) and t.decl().eq(R):
                jt = t.arg(1)
                cands.append((None, st["RS"], (jt,), lambda q: R(q, jt), k, "layers-responsible-for-the-constraint"))
            for ok, S, args, term, n, label in cands:
                if ok is None:
                    ok = c._valid(z3.And(bs.n == n, t == term(tj)))
                if ok:
                    link_sum(c, "sum-built-by-the-code=" + label, lambda q: S(*args, q), lambda q: z3.Implies(q >= 0, S(*args, q + 1) == S(*args, q) + term(q)), n, prop=P)
                    return r
            raise Unsupported("sum over something else than successors / predecessors / constraint edges / layers: %s" % t)
        sol.quicksum = linked_sum
        me.solver, me.G, me.k = sol, GG(), Sym(k)
        me.allow_empty_paths = allow_empty
        me.subpath_constraints = SymSeq(m, lambda jx: SymSeq(CL(lift(jx)), lambda q: (Sym(CU(lift(jx), lift(q))), Sym(CV(lift(jx), lift(q)))), STuple(SInt, SInt), "constraint"), None, "subpath_constraints")
        me.subpath_constraints_coverage, me.subpath_constraints_coverage_length = Sym(cov), None
        me.encode_edge_position, me.length_attr = False, None
        H0 = lift(sol.store.holds)
        f(me)
        H = lift(sol.store.holds)
        a, b = z3.Ints("pa pb")
        bx = z3.ForAll([a, b, i_], z3.Implies(edge_pred(a, b, i_), z3.And(0 <= XP(a, b, i_), XP(a, b, i_) <= 1, z3.IsInt(XP(a, b, i_)))))
        routes = z3.And(z3.ForAll([i_], z3.Implies(rng(i_, k), src_row(i_))),
                        z3.ForAll([i_, j_], z3.Implies(z3.And(rng(i_, k), rng(j_, nn), inner_node(NODE(j_))), cons_row(NODE(j_), i_))))
        has_c = c.decide(m > 0, "constraints-present")
        if has_c:
            br = z3.ForAll([i_, j_], z3.Implies(sub_pred(i_, j_), z3.And(0 <= R(i_, j_), R(i_, j_) <= 1, z3.IsInt(R(i_, j_)))))
            cons = z3.And(br, z3.ForAll([i_, j_], z3.Implies(sub_pred(i_, j_), cov_row(i_, j_))), z3.ForAll([j_], z3.Implies(rng(j_, m), resp_row(j_))))
        else:
            cons = z3.BoolVal(True)
        full = z3.And(H0, bx, routes, cons)
        c.prove("post:columns:one-0/1-integer-edge-indicator-per-(edge,layer)%s" % ("-and-one-0/1-responsibility-indicator-per-(layer,constraint)" if has_c else ""),
                z3.BoolVal(set(sol.created) == ({"edge", "r"} if has_c else {"edge"}) and all(r["var_type"] == "integer" for r in sol.created.values())), prop=P)
        c.prove("post:SOUND-in-every-admitted-assignment-each-layer-sends-%s-unit-out-of-the-source-and-conserves-it-at-every-inner-node%s"
                % ("at-most-one" if allow_empty else "exactly-one", ";-every-constraint-has-a-responsible-layer-that-uses-at-least-length*coverage-of-its-edges" if has_c else ""),
                z3.Implies(H, full), prop=P)
        c.prove("post:COMPLETE-nothing-else-is-excluded", z3.Implies(full, H), prop=None, kind="complete")

    def concrete(inst):
        def hc(c, f):
            E, k, cons, covv = [tuple(e) for e in inst["edges"]], inst["k"], [[tuple(e) for e in cc] for cc in inst.get("cons", [])], inst.get("cov", 1.0)
            nodes = []
            for e in E:
                for a in e:
                    if a not in nodes:
                        nodes.append(a)
            s0, t0 = inst["source"], inst["sink"]

            node_list = list(nodes)

            class GG:
                source, sink = s0, t0
                def edges(self, data=False): return list(E)
                @property
                def nodes(self): return list(node_list)
                def successors(self, a): return [b for (x, b) in E if x == a]
                def predecessors(self, a): return [x for (x, b) in E if b == a]
                def number_of_nodes(self): return len(node_list)

            class Me(Tracked):
                pass
            me = Me()
            sol = Solver({"edge": (XP, 3), "r": (R, 2)})
            me.solver, me.G, me.k = sol, GG(), k
            me.allow_empty_paths = allow_empty
            me.subpath_constraints = cons
            me.subpath_constraints_coverage, me.subpath_constraints_coverage_length = covv, None
            me.encode_edge_position, me.length_attr = False, None
            H0 = lift(sol.store.holds)
            f(me)
            H = lift(sol.store.holds)
            rows = [z3.And(0 <= XP(a, b, i), XP(a, b, i) <= 1, z3.IsInt(XP(a, b, i))) for i in range(k) for (a, b) in E]
            S = lambda ts: sum(ts, z3.RealVal(0))
            for i in range(k):
                out_s = S([XP(s0, b, i) for (x, b) in E if x == s0])
                rows.append(out_s <= 1 if allow_empty else out_s == 1)
                for v in nodes:
                    if v in (s0, t0):
                        continue
                    rows.append(S([XP(x, v, i) for (x, b) in E if b == v]) - S([XP(v, b, i) for (x, b) in E if x == v]) == 0)
            if cons:
                rows += [z3.And(0 <= R(i, j), R(i, j) <= 1, z3.IsInt(R(i, j))) for i in range(k) for j in range(len(cons))]
                for i in range(k):
                    for j, cc in enumerate(cons):
                        rows.append(S([XP(a, b, i) for (a, b) in cc]) >= z3.RealVal(len(cc)) * z3.RealVal(repr(covv)) * R(i, j))
                for j in range(len(cons)):
                    rows.append(S([R(i, j) for i in range(k)]) >= 1)
            full = z3.And(H0, *rows)
            c.prove("instance:SOUND-each-layer-is-a-unit-source-to-sink-flow-of-0/1-indicators-and-every-constraint-is-covered-by-a-responsible-layer", z3.Implies(H, full), prop=P)
            c.prove("instance:COMPLETE-nothing-else-is-excluded", z3.Implies(full, H), prop=None, kind="complete")
        return hc

    def instances():
        D = [(0, 1), (0, 2), (1, 3), (2, 3), (1, 2)]
        return [(lab, concrete(inst)) for lab, inst in (
            ("diamond-with-chord,k=2", dict(edges=D, k=2, source=0, sink=3)),
            ("diamond-with-chord,k=2,one-constraint", dict(edges=D, k=2, source=0, sink=3, cons=[[(0, 1), (1, 2)]])),
            ("diamond-with-chord,k=1,two-constraints,coverage-0.5", dict(edges=D, k=1, source=0, sink=3, cons=[[(0, 1), (1, 3)], [(2, 3)]], cov=0.5)),
            ("path,k=3", dict(edges=[(0, 1), (1, 2)], k=3, source=0, sink=2)))]

    fresh = lambda old: Sym(z3.Bool(core.ctx().name("H")))
    mod = [(("self", "solver", "store", "holds"), fresh)]
    loops = {0: dict(inv=inv0, prop=P, modifies=mod, on_entry=snap("H_l0"), keep=("i",)),
             1: dict(inv=inv1, prop=P, modifies=mod, on_entry=snap("H_l1"), keep=("i", "v")),
             2: dict(inv=inv2, prop=P, modifies=mod, on_entry=snap("H_l2", ("i",)), keep=("v",)),
             3: dict(inv=inv3, prop=P, modifies=mod, on_entry=snap("H_l3"), keep=("i", "j", "constraint_length", "coverage_fraction")),
             4: dict(inv=inv4, prop=P, modifies=mod, on_entry=snap("H_l4", ("i",)), keep=("j", "constraint_length", "coverage_fraction")),
             5: dict(inv=inv5, prop=P, modifies=mod, on_entry=snap("H_l5"), keep=("j",))}
    return Unit("flowpaths/abstractpathmodeldag.py", "AbstractPathModelDAG._encode_paths", h, globs=dict(utils=UtilsStub), loops=split_loops(loops, P), props=["C01", "C10"],
                name="flowpaths/abstractpathmodeldag.py:AbstractPathModelDAG._encode_paths[allow_empty_paths=%s]" % allow_empty, callee_contracts=[A1C], instances=instances,
                assumptions=[A3, "A2 networkx: successors(v) / predecessors(v) enumerate the out- / in-neighbours of v",
                             "requires: constraint edges are edges of the graph (validated by the constructor, C19); coverage counted in edges (subpath_constraints_coverage_length is None); "
                             "no position / length columns requested (encode_edge_position False)",
                             "LM (not proved here): on a DAG a 0/1 edge vector with one unit leaving the source and conservation at the inner nodes is the indicator of one source-to-sink path "
                             "(the decoder unit of C01 starts from exactly this hypothesis; the bounded part checks the returned routes)"])


# =====================================================================================================================
# kPathCover._encode_path_cover / kPathCoverCycles._encode_walk_cover (C09): every non-ignored edge is used by at least one layer

class SmallSet:
    """set() whose membership test does not hash while it is empty"""
    def __init__(self, it=()):
        self.items = list(it)
    def add(self, x): self.items.append(x)
    def __contains__(self, x):
        if not self.items:
            return False
        raise Unsupported("membership in a non-empty set of constraint edges")


def u_cover(relpath, qualname, cons_attr):
    P = "C09"
    st = {}

    def row(u, v):
        return st["SUMX"](u, v, st["k"]) >= 1

    def inv(ns, seq, done):
        g = st["g"]
        j = z3.Int("cj")
        return {"rows-so-far=exactly-(some-layer-uses-the-edge)-for-the-non-ignored-edges-seen":
                lift(ns["self"].solver.store.holds) == z3.And(st["H0"], z3.ForAll([j], z3.Implies(z3.And(j >= 0, j < lift(done), z3.Not(IGN(g.EU(j), g.EV(j)))), row(g.EU(j), g.EV(j)))))}

    def h(c, f):
        g = Graph(c)
        k = c.fresh_const("k", INT)
        c.assume(k >= 1)
        st.update(g=g, k=k)
        st["SUMX"] = prefix_sum(c, "layers_using_edge", lambda u, v, q: X(u, v, q), 2)

        class Me(Tracked):
            pass
        me = Me()
        sol = Solver({})

        def linked_sum(it):
            r = Solver.quicksum(sol, it)
            bs = c.sums[-1]
            tj = z3.Int(c.name("tj"))
            t = bs.t(tj)
            if not (z3.is_app(t) and t.decl().eq(X) and z3.simplify(t.arg(2)).eq(tj) and c._valid(bs.n == k)):
                raise Unsupported("sum over something else than x(u,v,i) for i < k: %s" % t)
            u, v = t.arg(0), t.arg(1)
            S = st["SUMX"]
            link_sum(c, "sum-built-by-the-code=number-of-layers-using-the-edge", lambda q: S(u, v, q), lambda q: z3.Implies(q >= 0, S(u, v, q + 1) == S(u, v, q) + X(u, v, q)), k, prop=P)
            return r
        sol.quicksum = linked_sum
        me.solver, me.G, me.k = sol, g, Sym(k)
        me.edge_vars = VarMap("edge_vars", X, lambda a, b, i: z3.And(g.EDGE(a, b), i >= 0, i < k), 3)
        me.edges_to_ignore = Member(IGN, "ignored")
        setattr(me, cons_attr, [])
        setattr(me, cons_attr + "_coverage", 1)
        st["H0"] = lift(sol.store.holds)
        f(me)
        H = lift(sol.store.holds)
        u, v = z3.Ints("pu pv")
        spec = z3.ForAll([u, v], z3.Implies(z3.And(g.EDGE(u, v), z3.Not(IGN(u, v))), row(u, v)))
        c.prove("post:SOUND-in-every-admitted-assignment-every-non-ignored-edge-is-used-by-at-least-one-layer", z3.Implies(H, z3.And(st["H0"], spec)), prop=P)
        c.prove("post:COMPLETE-nothing-else-is-excluded-(ignored-edges-carry-no-cover-row)", z3.Implies(z3.And(st["H0"], spec), H), prop=None, kind="complete")
        c.prove("post:no-column-is-created", z3.BoolVal(not sol.created), prop=P)

    def concrete(inst):
        def hc(c, f):
            E, k, ign = [tuple(e) for e in inst["edges"]], inst["k"], set(map(tuple, inst.get("ign", ())))

            class G:
                def edges(self, data=False): return list(E)

            class Me(Tracked):
                pass
            me = Me()
            sol = Solver({})
            me.solver, me.G, me.k = sol, G(), k
            me.edge_vars = VarMap("edge_vars", X, concrete_idx("edge_indexes", [(a, b, i) for i in range(k) for (a, b) in E], 3).pred, 3)
            me.edges_to_ignore = ign
            setattr(me, cons_attr, [])
            setattr(me, cons_attr + "_coverage", 1)
            H0 = lift(sol.store.holds)
            f(me)
            H = lift(sol.store.holds)
            full = z3.And(H0, *[sum([X(a, b, i) for i in range(k)], z3.RealVal(0)) >= 1 for (a, b) in E if (a, b) not in ign])
            c.prove("instance:SOUND-every-non-ignored-edge-is-used-by-at-least-one-layer", z3.Implies(H, full), prop=P)
            c.prove("instance:COMPLETE-nothing-else-is-excluded", z3.Implies(full, H), prop=None, kind="complete")
        return hc

    def instances():
        return [(lab, concrete(i)) for lab, i in (("3-edges,k=2", dict(edges=[(0, 1), (1, 2), (0, 2)], k=2)), ("3-edges,k=2,one-ignored", dict(edges=[(0, 1), (1, 2), (0, 2)], k=2, ign=[(0, 2)])),
                                                  ("self-loop,k=1", dict(edges=[(0, 1), (1, 1), (1, 2)], k=1)))]
    fresh = lambda old: Sym(z3.Bool(core.ctx().name("H")))
    # loops 0/1 build the set of constraint edges (no constraints in this contract: they run natively zero times); loop 2 is the edge loop
    loops = {2: dict(inv=inv, prop=P, modifies=[(("self", "solver", "store", "holds"), fresh)], keep=("u", "v"))}
    return Unit(relpath, qualname, h, globs=dict(utils=UtilsStub, set=SmallSet), loops=split_loops(loops, P), props=[P], instances=instances, callee_contracts=[A1C],
                assumptions=[A3, "no sub-path / subset constraints given (with constraints at full coverage the code may skip the cover row of a constraint edge; that case is decided by the bounded part)"])


# =====================================================================================================================
# AbstractWalkModelDiGraph._encode_subset_constraints (C10, C04: subset constraints of the cyclic models)

def u_subset_constraints():
    P = "C10,C04"
    Z = z3.Function("used_edge_var", INT, INT, INT, REAL)                  # min(1, multiplicity): "layer i uses edge e at all"
    R = z3.Function("r_subset_var", INT, INT, REAL)
    UB = z3.Function("edge_upper_bound", INT, INT, REAL)
    DL = z3.Function("constraint_distinct_len", INT, INT)
    DU, DV = z3.Function("constraint_distinct_tail", INT, INT, INT), z3.Function("constraint_distinct_head", INT, INT, INT)
    st = {}
    i_, j_, a_, b_ = z3.Ints("qi qj qa qb")
    rng = lambda q, hi: z3.And(q >= 0, q < lift(hi))

    def used_row(a, b, i):
        return z3.And(Z(a, b, i) <= X(a, b, i), lift(Sym(X(a, b, i)) <= Sym(UB(a, b)) * Sym(Z(a, b, i))))

    def cov_row(i, j):
        return lift(Sym(st["DS"](j, i, DL(j))) >= Sym(DL(j)) * Sym(st["cov"]) * Sym(R(i, j)))

    def resp_row(j):
        return st["RS"](j, st["k"]) >= 1

    def eqv(ns, entry, body):
        return lift(ns["self"].solver.store.holds) == z3.And(st[entry], body)

    def snap(name, more=()):
        def on_entry(ns, it=None):
            st[name] = lift(ns["self"].solver.store.holds)
            for a in more:
                st["cur_" + a] = lift(ns[a])
        return on_entry

    def inv0(ns, seq, done):
        g = st["g"]
        return {"rows-so-far=used-indicator-rows-of-every-edge-in-every-layer-seen": eqv(ns, "H_l0", z3.ForAll([i_, j_], z3.Implies(z3.And(rng(i_, done), rng(j_, g.n)), used_row(g.EU(j_), g.EV(j_), i_))))}

    def inv1(ns, seq, done):
        g = st["g"]
        return {"rows-so-far=used-indicator-rows-of-the-edges-seen-in-this-layer": eqv(ns, "H_l1", z3.ForAll([j_], z3.Implies(rng(j_, done), used_row(g.EU(j_), g.EV(j_), st["cur_i"]))))}

    def inv2(ns, seq, done):
        return {"rows-so-far=coverage-row-of-every-constraint-in-every-layer-seen": eqv(ns, "H_l2", z3.ForAll([i_, j_], z3.Implies(z3.And(rng(i_, done), rng(j_, st["m"])), cov_row(i_, j_))))}

    def inv3(ns, seq, done):
        return {"rows-so-far=coverage-row-of-the-constraints-seen-in-this-layer": eqv(ns, "H_l3", z3.ForAll([j_], z3.Implies(rng(j_, done), cov_row(st["cur_i"], j_))))}

    def inv4(ns, seq, done):
        return {"rows-so-far=some-layer-is-responsible-for-every-constraint-seen": eqv(ns, "H_l4", z3.ForAll([j_], z3.Implies(rng(j_, done), resp_row(j_))))}

    class CSeq(SymSeq):
        pass

    def h(c, f):
        abstract_mul(c)
        g = Graph(c)
        k, m = c.fresh_const("k", INT), c.fresh_const("n_constraints", INT)
        cov = c.fresh_const("coverage", REAL)
        c.assume(z3.And(k >= 1, m >= 0, cov > 0, cov <= 1))
        st.update(g=g, k=k, m=m, cov=cov)
        jj, q = z3.Ints("hj hq")
        c.assume(z3.ForAll([jj], z3.Implies(z3.And(jj >= 0, jj < m), DL(jj) >= 1)))
        c.assume(z3.ForAll([jj, q], z3.Implies(z3.And(jj >= 0, jj < m, q >= 0, q < DL(jj)), g.EDGE(DU(jj, q), DV(jj, q)))))     # requires: constraint edges are edges (C19)
        st["DS"] = prefix_sum(c, "distinct_constraint_edges_used", lambda j, i, t: Z(DU(j, t), DV(j, t), i), 2)
        st["RS"] = prefix_sum(c, "responsible_layers", lambda j, t: R(t, j), 1)
        edge_pred = lambda a, b, i: z3.And(g.EDGE(a, b), i >= 0, i < k)
        sub_pred = lambda i, j: z3.And(i >= 0, i < k, j >= 0, j < m)

        class EdgeView(SymSeq):
            def __call__(self, data=False): return g.edges(data)

        class GG:
            source, sink = g.source, g.sink
            @property
            def edges(self):
                return EdgeView(g.n, lambda t: (Sym(g.EU(lift(t))), Sym(g.EV(lift(t)))), STuple(SInt, SInt), "edges")

        class UBMap:
            def __getitem__(self, key): return Sym(UB(lift(key[0]), lift(key[1])))

        def set_(x=None):
            if isinstance(x, CSeq):             # set(constraint j): its distinct edges, in some order (A3: a finite set has an enumeration without repetition)
                jx = x.j
                return SymSeq(DL(jx), lambda t: (Sym(DU(jx, lift(t))), Sym(DV(jx, lift(t)))), STuple(SInt, SInt), "distinct_edges")
            raise Unsupported("set() of something else than a constraint")

        st["set_"] = set_

        class Me(Tracked):
            pass
        me = Me()
        sol = Solver({"r": (R, 2), "used_edge": (Z, 3)})
        sol.graph, sol.basic_pred = g, (lambda a, b: g.EDGE(a, b))
        edge_idx = IdxSet("edge_indexes", edge_pred, 3)

        def recognise(indexes, name_prefix):
            if isinstance(indexes, LazyProduct):
                a0, b0 = c.fresh_const("arbitrary_layer", INT), c.fresh_const("arbitrary_constraint", INT)
                it1 = indexes.it1
                if not (isinstance(it1, SymRange) and c._valid(lift(it1.length()) == k)):
                    raise Unsupported("product index list: outer iterable is not range(k)")
                c.assume(z3.And(a0 >= 0, a0 < k))
                x1 = it1.at(a0)
                it2 = indexes.it2fn(x1)
                n2 = lift(it2.length())
                c.assume(z3.And(b0 >= 0, b0 < n2))
                key = indexes.fn(x1)(it2.at(b0))
                if name_prefix == "r" and len(key) == 2 and c._valid(z3.And(n2 == m, lift(key[0]) == a0, lift(key[1]) == b0)):
                    return IdxSet("subset_indexes", sub_pred, 2)
                raise Unsupported("product index list not recognised")
            return indexes
        orig_add = sol.add_variables
        sol.add_variables = lambda indexes, name_prefix="", lb=0, ub=1, var_type="integer": orig_add(recognise(indexes, name_prefix), name_prefix=name_prefix, lb=lb, ub=ub, var_type=var_type)

        def linked_sum(it):
            r = Solver.quicksum(sol, it)
            bs = c.sums[-1]
            tj = z3.Int(c.name("tj"))
            t = bs.t(tj)
            if z3.is_app(t) and t.decl().eq(Z) and z3.is_app(t.arg(0)) and t.arg(0).decl().eq(DU):
                jt, i = t.arg(0).arg(0), t.arg(2)
                if c._valid(z3.And(bs.n == DL(jt), t == Z(DU(jt, tj), DV(jt, tj), i))):
                    S = st["DS"]
                    link_sum(c, "sum-built-by-the-code=distinct-constraint-edges-used-by-the-layer", lambda q_: S(jt, i, q_), lambda q_: z3.Implies(q_ >= 0, S(jt, i, q_ + 1) == S(jt, i, q_) + Z(DU(jt, q_), DV(jt, q_), i)), DL(jt), prop=P)
                    return r
            if z3.is_app(t) and t.decl().eq(R):
                jt = t.arg(1)
                if c._valid(z3.And(bs.n == k, t == R(tj, jt))):
                    S = st["RS"]
                    link_sum(c, "sum-built-by-the-code=layers-responsible-for-the-constraint", lambda q_: S(jt, q_), lambda q_: z3.Implies(q_ >= 0, S(jt, q_ + 1) == S(jt, q_) + R(q_, jt)), k, prop=P)
                    return r
            raise Unsupported("sum over something else than the used-indicators of a constraint / the responsibility indicators: %s" % t)
        sol.quicksum = linked_sum

        def cons_at(jx):
            s_ = CSeq(c.fresh_const("raw_len", INT), lambda t: (Sym(z3.Int("raw_u")), Sym(z3.Int("raw_v"))), STuple(SInt, SInt), "constraint")
            s_.j = lift(jx)
            return s_
        me.solver, me.G, me.k = sol, GG(), Sym(k)
        me.subset_constraints = SymSeq(m, cons_at, None, "subset_constraints")
        me.subset_constraints_coverage = Sym(cov)
        me.edge_indexes = edge_idx
        me.edge_vars = VarMap("edge_vars", X, edge_pred, 3)
        me.edge_upper_bounds = UBMap()
        H0 = lift(sol.store.holds)
        f(me)
        H = lift(sol.store.holds)
        if not c.decide(m > 0, "constraints-present"):
            c.prove("post:no-constraints=>no-row-and-no-column-is-added", z3.BoolVal(H.eq(H0) and not sol.created), prop=P)
            return
        b01 = lambda t: z3.And(0 <= t, t <= 1, z3.IsInt(t))
        full = z3.And(H0, z3.ForAll([i_, j_], z3.Implies(sub_pred(i_, j_), b01(R(i_, j_)))), z3.ForAll([a_, b_, i_], z3.Implies(edge_pred(a_, b_, i_), b01(Z(a_, b_, i_)))),
                      z3.ForAll([a_, b_, i_], z3.Implies(edge_pred(a_, b_, i_), used_row(a_, b_, i_))),
                      z3.ForAll([i_, j_], z3.Implies(sub_pred(i_, j_), cov_row(i_, j_))), z3.ForAll([j_], z3.Implies(rng(j_, m), resp_row(j_))))
        c.prove("post:columns:one-0/1-responsibility-indicator-per-(layer,constraint)-and-one-0/1-used-indicator-per-(edge,layer)",
                z3.BoolVal(set(sol.created) == {"r", "used_edge"} and all(r["var_type"] == "integer" for r in sol.created.values())), prop=P)
        c.prove("post:SOUND-every-constraint-has-a-responsible-layer-that-USES-(not:-traverses-often)-at-least-|distinct edges|*coverage-of-its-edges", z3.Implies(H, full), prop=P)
        c.prove("post:COMPLETE-nothing-else-is-excluded", z3.Implies(full, H), prop=None, kind="complete")
        # what the used-indicator means, given the multiplicity bounds of the edge variables
        c.prove("post:the-used-indicator-is-min(1,-multiplicity)",
                z3.Implies(z3.And(H, z3.ForAll([a_, b_, i_], z3.Implies(edge_pred(a_, b_, i_), z3.And(X(a_, b_, i_) >= 0, z3.IsInt(X(a_, b_, i_)))))),
                           z3.ForAll([a_, b_, i_], z3.Implies(edge_pred(a_, b_, i_), Z(a_, b_, i_) == z3.If(X(a_, b_, i_) >= 1, z3.RealVal(1), z3.RealVal(0))))), prop=P)

    def concrete(inst):
        def hc(c, f):
            E, k, cons, covv, ub = [tuple(e) for e in inst["edges"]], inst["k"], [[tuple(e) for e in cc] for cc in inst.get("cons", [])], inst.get("cov", 1.0), inst.get("ub", {})

            class EdgeList(list):
                def __call__(self, data=False): return list(self)

            class GG:
                edges = EdgeList(E)

            class Me(Tracked):
                pass
            me = Me()
            sol = Solver({"r": (R, 2), "used_edge": (Z, 3)})
            members = [(a, b, i) for i in range(k) for (a, b) in E]
            me.solver, me.G, me.k = sol, GG(), k
            me.subset_constraints, me.subset_constraints_coverage = cons, covv
            me.edge_indexes = concrete_idx("edge_indexes", members, 3)
            me.edge_vars = VarMap("edge_vars", X, me.edge_indexes.pred, 3)
            me.edge_upper_bounds = {e: ub.get(e, 1) for e in E}
            H0 = lift(sol.store.holds)
            f(me)
            H = lift(sol.store.holds)
            if not cons:
                c.prove("instance:no-constraints=>nothing-added", z3.BoolVal(H.eq(H0)), prop=P)
                return
            b01 = lambda t: z3.And(0 <= t, t <= 1, z3.IsInt(t))
            S = lambda ts: sum(ts, z3.RealVal(0))
            rows = [b01(R(i, j)) for i in range(k) for j in range(len(cons))] + [b01(Z(*mm)) for mm in members]
            rows += [z3.And(Z(a, b, i) <= X(a, b, i), X(a, b, i) <= z3.RealVal(ub.get((a, b), 1)) * Z(a, b, i)) for (a, b, i) in members]
            for i in range(k):
                for j, cc in enumerate(cons):
                    d = sorted(set(cc))
                    rows.append(S([Z(a, b, i) for (a, b) in d]) >= z3.RealVal(len(d)) * z3.RealVal(repr(covv)) * R(i, j))
            rows += [S([R(i, j) for i in range(k)]) >= 1 for j in range(len(cons))]
            full = z3.And(H0, *rows)
            c.prove("instance:SOUND-every-constraint-has-a-responsible-layer-that-uses-the-requested-share-of-its-distinct-edges", z3.Implies(H, full), prop=P)
            c.prove("instance:COMPLETE-nothing-else-is-excluded", z3.Implies(full, H), prop=None, kind="complete")
        return hc

    def instances():
        E = [(0, 1), (1, 2), (2, 1), (2, 3)]
        return [(lab, concrete(i)) for lab, i in (
            ("cycle,k=1,constraint-with-a-cycle-edge", dict(edges=E, k=1, cons=[[(1, 2), (2, 3)]], ub={(1, 2): 3, (2, 1): 3})),
            ("cycle,k=2,two-constraints,duplicate-edge-in-one,coverage-0.5", dict(edges=E, k=2, cons=[[(1, 2), (1, 2), (2, 1)], [(0, 1)]], cov=0.5, ub={(1, 2): 2, (2, 1): 2})),
            ("cycle,k=2,no-constraints", dict(edges=E, k=2)))]

    fresh = lambda old: Sym(z3.Bool(core.ctx().name("H")))
    mod = [(("self", "solver", "store", "holds"), fresh)]
    loops = {0: dict(inv=inv0, prop=P, modifies=mod, on_entry=snap("H_l0"), keep=("i", "u", "v")),
             1: dict(inv=inv1, prop=P, modifies=mod, on_entry=snap("H_l1", ("i",)), keep=("u", "v")),
             2: dict(inv=inv2, prop=P, modifies=mod, on_entry=snap("H_l2"), keep=("i", "j", "constraint_as_set", "constraint_length", "coverage_fraction")),
             3: dict(inv=inv3, prop=P, modifies=mod, on_entry=snap("H_l3", ("i",)), keep=("j", "constraint_as_set", "constraint_length", "coverage_fraction")),
             4: dict(inv=inv4, prop=P, modifies=mod, on_entry=snap("H_l4"), keep=("j",))}
    def set_glob(x=None):
        if isinstance(x, (list, tuple)):
            return sorted(set(x))            # concrete instance (sorted: a deterministic enumeration)
        return st["set_"](x)
    u = Unit("flowpaths/abstractwalkmodeldigraph.py", "AbstractWalkModelDiGraph._encode_subset_constraints", h, globs=dict(utils=UtilsStub, set=set_glob), loops=split_loops(loops, P), props=["C10", "C04"],
             instances=instances, callee_contracts=[A1C],
             assumptions=[A3, "requires: constraint edges are edges of the graph (validated by the constructor, C19)",
                          "set(constraint) is modelled as an enumeration without repetition of the constraint's distinct edges (a finite set has one); the raw list is not read otherwise"])
    return u


# =====================================================================================================================
# MinGenSet._create_solver (C15): an admitted assignment IS a generating set of size k

def u_mingenset(wt, multi):
    P = "C15"
    B = z3.Function("genset_var", INT, REAL)                       # i-th element of the generating set
    XM = z3.Function("x_multiplicity_var", INT, INT, REAL)          # how often element i is used for number j
    PX = z3.Function("pi_product_var", INT, INT, REAL)
    NUM = z3.Function("number_at", INT, REAL)
    st = {}
    i_, j_ = z3.Ints("qi qj")
    rng = lambda q, hi: z3.And(q >= 0, q < lift(hi))

    def num_rows(j):
        return z3.And(z3.ForAll([i_], z3.Implies(rng(i_, st["k"]), PX(i_, j) == mul(XM(i_, j), B(i_)))), st["PS"](j, st["k"]) == NUM(j))

    def inv_j(ns, seq, done):
        return {"rows-so-far=every-number-seen-is-the-sum-of-(multiplicity x element)":
                lift(ns["self"].solver.store.holds) == z3.And(st["H_j"], z3.ForAll([j_], z3.Implies(rng(j_, done), num_rows(j_))))}

    def on_entry_j(ns, it=None):
        st["H_j"] = lift(ns["self"].solver.store.holds)

    def on_entry_i(ns, it=None):
        st["H_i"] = lift(ns["self"].solver.store.holds)
        st["cur_j"] = lift(ns["j"])

    def inv_i(ns, seq, done):
        j = st["cur_j"]
        return {"product-rows-so-far=exactly-(pi = multiplicity x element)-for-the-elements-seen":
                lift(ns["self"].solver.store.holds) == z3.And(st["H_i"], z3.ForAll([i_], z3.Implies(rng(i_, done), PX(i_, j) == mul(XM(i_, j), B(i_)))))}

    def h(c, f):
        abstract_mul(c)
        k, n = c.fresh_const("k", INT), c.fresh_const("n_numbers", INT)
        total, mm = c.fresh_const("total", REAL), (z3.IntVal(1) if not multi else c.fresh_const("max_multiplicity", INT))
        c.assume(z3.And(k >= 1, n >= 0, total >= 0))
        if multi:
            c.assume(mm >= 2)
        c.assume(z3.ForAll([j_], z3.Implies(rng(j_, n), NUM(j_) >= 0)))
        st.update(k=k, n=n)
        st["BS"] = prefix_sum(c, "sum_of_elements", lambda q: B(q), 0)
        st["PS"] = prefix_sum(c, "sum_of_products_for_number", lambda j, q: PX(q, j), 1)

        class Me(Tracked):
            pass
        me = Me()
        sol = Solver({"gen_set": (B, 1), "x": (XM, 2), "pi": (PX, 2)})
        sol.store.holds = Sym(z3.BoolVal(True))              # a freshly created model has no rows

        def recognise(indexes, name_prefix):
            if isinstance(indexes, SymSeq) and name_prefix == "gen_set":
                q0 = c.fresh_const("arbitrary_position", INT)
                c.assume(z3.And(q0 >= 0, q0 < k))
                if c._valid(z3.And(lift(indexes.length()) == k, lift(indexes.at(q0)) == q0)):
                    return IdxSet("genset_indexes", lambda i: z3.And(i >= 0, i < k), 1)
            if isinstance(indexes, LazyProduct):
                a0, b0 = c.fresh_const("arbitrary_element", INT), c.fresh_const("arbitrary_number", INT)
                it1 = indexes.it1
                if isinstance(it1, SymRange) and c._valid(lift(it1.length()) == k):
                    c.assume(z3.And(a0 >= 0, a0 < k))
                    x1 = it1.at(a0)
                    it2 = indexes.it2fn(x1)
                    c.assume(z3.And(b0 >= 0, b0 < lift(it2.length())))
                    key = indexes.fn(x1)(it2.at(b0))
                    if len(key) == 2 and c._valid(z3.And(lift(it2.length()) == n, lift(key[0]) == a0, lift(key[1]) == b0)):
                        return IdxSet("x_indexes", lambda i, j: z3.And(i >= 0, i < k, j >= 0, j < n), 2)
            raise Unsupported("index list not recognised (%s)" % name_prefix)
        orig_add = sol.add_variables
        sol.add_variables = lambda indexes, name_prefix="", lb=0, ub=1, var_type="integer": orig_add(recognise(indexes, name_prefix), name_prefix=name_prefix, lb=lb, ub=ub, var_type=var_type)

        def linked_sum(it):
            r = Solver.quicksum(sol, it)
            bs = c.sums[-1]
            tj = z3.Int(c.name("tj"))
            t = bs.t(tj)
            if c._valid(z3.And(bs.n == k, t == B(tj))):
                S = st["BS"]
                link_sum(c, "sum-built-by-the-code=sum-of-the-elements", lambda q: S(q), lambda q: z3.Implies(q >= 0, S(q + 1) == S(q) + B(q)), k, prop=P)
                return r
            if z3.is_app(t) and t.decl().eq(PX):
                jt = t.arg(1)
                if c._valid(z3.And(bs.n == k, t == PX(tj, jt))):
                    S = st["PS"]
                    link_sum(c, "sum-built-by-the-code=sum-over-the-elements-of-(multiplicity x element)-for-the-number", lambda q: S(jt, q), lambda q: z3.Implies(q >= 0, S(jt, q + 1) == S(jt, q) + PX(q, jt)), k, prop=P)
                    return r
            raise Unsupported("sum over something else than the elements / the products of a number: %s" % t)
        sol.quicksum = linked_sum

        class SWMod:
            @staticmethod
            def SolverWrapper(**kw):
                return sol
        st["sw"] = SWMod

        def sym_break(kk):
            """CONTRACT of _encode_symmetry_breaking (its own unit): elements 0 .. k-2 are sorted"""
            sol.store.add(z3.ForAll([i_], z3.Implies(z3.And(i_ >= 0, i_ < lift(kk) - 2), B(i_) <= B(i_ + 1))))
        me._encode_symmetry_breaking = sym_break
        me._encode_partition_constraints = lambda kk: (_ for _ in ()).throw(Unsupported("partition constraints"))
        me.solver_options = {}
        me.numbers = SymSeq(n, lambda q: Sym(NUM(lift(q))), SReal0, "numbers")
        me.total, me.max_multiplicity = Sym(total), (1 if not multi else Sym(mm))
        me.weight_type = BUILTINS["int"] if wt is int else BUILTINS["float"]
        me.partition_constraints = None
        f(me, Sym(k))
        H = lift(sol.store.holds)
        tname = "integer" if wt is int else "continuous"
        c.prove("post:columns:k-elements-in-[0,total],-multiplicities-in-[0,max_multiplicity]-integer,-products",
                z3.BoolVal({nm: r["var_type"] for nm, r in sol.created.items()} == {"gen_set": tname, "x": "integer", "pi": tname}), prop=P)
        num = lambda t, hi, integer: z3.And(0 <= t, t <= hi, *([z3.IsInt(t)] if integer else []))
        pi_ub = sol.created["pi"]["ub"]
        c.prove("post:the-product-columns'-upper-bound-is-at-least-total-and-every-number-(no-admissible-product-is-cut-off)",
                z3.And(pi_ub >= total, z3.ForAll([j_], z3.Implies(rng(j_, n), pi_ub >= NUM(j_)))), prop=P)
        mmr = z3.ToReal(mm) if mm.sort() == INT else mm
        full = z3.And(z3.ForAll([i_], z3.Implies(rng(i_, k), num(B(i_), total, wt is int))),
                      z3.ForAll([i_, j_], z3.Implies(z3.And(rng(i_, k), rng(j_, n)), z3.And(num(XM(i_, j_), mmr, True), num(PX(i_, j_), pi_ub, wt is int)))),
                      st["BS"](k) == total,
                      z3.ForAll([j_], z3.Implies(rng(j_, n), num_rows(j_))),
                      z3.ForAll([i_], z3.Implies(z3.And(i_ >= 0, i_ < k - 2), B(i_) <= B(i_ + 1))))
        c.prove("post:SOUND-every-admitted-assignment-is-a-generating-set: the k elements sum to total and every number is a sum of (multiplicity x element) with multiplicities <= max_multiplicity",
                z3.Implies(H, full), prop=P)
        c.prove("post:COMPLETE-nothing-else-is-excluded-(beyond-sorting-the-first-k-1-elements)", z3.Implies(full, H), prop=None, kind="complete")

    def concrete(inst):
        def hc(c, f):
            k, n = inst["k"], inst["n"]
            total = c.fresh_const("total", REAL)
            c.assume(total >= 0)
            mmv = 1 if not multi else inst.get("mm", 3)
            nums = [Sym(NUM(z3.IntVal(j))) for j in range(n)]
            for x in nums:
                c.assume(x.t >= 0)

            class Me(Tracked):
                pass
            me = Me()
            sol = Solver({"gen_set": (B, 1), "x": (XM, 2), "pi": (PX, 2)})
            sol.store.holds = Sym(z3.BoolVal(True))

            def addv(indexes, name_prefix="", lb=0, ub=1, var_type="integer"):
                idx = [(x,) if not isinstance(x, tuple) else x for x in indexes]
                return Solver.add_variables(sol, idx, name_prefix=name_prefix, lb=lb, ub=ub, var_type=var_type)
            sol.add_variables = addv

            class SWMod:
                @staticmethod
                def SolverWrapper(**kw):
                    return sol
            st["sw"] = SWMod
            me._encode_symmetry_breaking = lambda kk: [sol.store.add(B(i) <= B(i + 1)) for i in range(kk - 2)]
            me.solver_options, me.numbers, me.total, me.max_multiplicity = {}, nums, Sym(total), mmv
            me.weight_type = BUILTINS["int"] if wt is int else BUILTINS["float"]
            me.partition_constraints = None
            f(me, k)
            H = lift(sol.store.holds)
            pi_ub = sol.created["pi"]["ub"]
            num = lambda t, hi, integer: z3.And(0 <= t, t <= hi, *([z3.IsInt(t)] if integer else []))
            rows = [num(B(i), total, wt is int) for i in range(k)]
            rows += [z3.And(num(XM(i, j), z3.RealVal(mmv), True), num(PX(i, j), pi_ub, wt is int), PX(i, j) == mul(XM(i, j), B(i))) for i in range(k) for j in range(n)]
            rows.append(sum([B(i) for i in range(k)], z3.RealVal(0)) == total)
            rows += [sum([PX(i, j) for i in range(k)], z3.RealVal(0)) == NUM(j) for j in range(n)]
            rows += [B(i) <= B(i + 1) for i in range(k - 2)]
            full = z3.And(*rows)
            c.prove("instance:product-bound-covers-total-and-every-number", z3.And(pi_ub >= total, *[pi_ub >= NUM(j) for j in range(n)]), prop=P)
            c.prove("instance:SOUND-every-admitted-assignment-is-a-generating-set", z3.Implies(H, full), prop=P)
            c.prove("instance:COMPLETE-nothing-else-is-excluded", z3.Implies(full, H), prop=None, kind="complete")
        return hc

    def instances():
        return [(lab, concrete(i)) for lab, i in (("k=2,two-numbers", dict(k=2, n=2)), ("k=3,one-number", dict(k=3, n=1)), ("k=1,two-numbers", dict(k=1, n=2, mm=2)))]

    fresh = lambda old: Sym(z3.Bool(core.ctx().name("H")))
    mod = [(("self", "solver", "store", "holds"), fresh)]
    # loop 0: numbers; loops 1 / 2: elements (binary / integer product branch)
    loops = {0: dict(inv=inv_j, prop=P, modifies=mod, on_entry=on_entry_j, keep=("j", "i")),
             1: dict(inv=inv_i, prop=P, modifies=mod, on_entry=on_entry_i, keep=("i",)),
             2: dict(inv=inv_i, prop=P, modifies=mod, on_entry=on_entry_i, keep=("i",))}

    class SWProxy:
        def __getattr__(self, k_):
            return getattr(st["sw"], k_)
    return Unit("flowpaths/mingenset.py", "MinGenSet._create_solver", h, globs=dict(utils=UtilsStub, sw=SWProxy()), loops=split_loops(loops, P), props=[P],
                name="flowpaths/mingenset.py:MinGenSet._create_solver[weight_type=%s,%s]" % (wt.__name__, "max_multiplicity>=2" if multi else "max_multiplicity=1"), instances=instances,
                callee_contracts=[A1C, "MinGenSet._encode_symmetry_breaking (elements 0..k-2 sorted)"],
                assumptions=[A3, "no partition constraints (that encoder is decided by the bounded part)",
                             "integer product helper: the bound passed, max(total, max_multiplicity), covers both factors (its C12 contract then makes the rows exact)"])


from pyvc.heap import SReal as SReal0


def u_symmetry_breaking():
    P = "C15"
    B = z3.Function("genset_var", INT, REAL)
    st = {}
    i_ = z3.Int("qi")

    def inv(ns, seq, done):
        return {"rows-so-far=elements-0..done-are-sorted": lift(ns["self"].solver.store.holds) == z3.And(st["H0"], z3.ForAll([i_], z3.Implies(z3.And(i_ >= 0, i_ < lift(done)), B(i_) <= B(i_ + 1))))}

    def h(c, f):
        k = c.fresh_const("k", INT)
        c.assume(k >= 1)

        class Me(Tracked):
            pass
        me = Me()
        sol = Solver({})
        me.solver = sol
        me.genset_vars = VarMap("genset_vars", B, lambda i: z3.And(i >= 0, i < k), 1)
        st["H0"] = lift(sol.store.holds)
        f(me, Sym(k))
        rows_ = z3.And(st["H0"], z3.ForAll([i_], z3.Implies(z3.And(i_ >= 0, i_ < k - 2), B(i_) <= B(i_ + 1))))
        c.prove("post:SOUND-elements-0..k-2-are-sorted", z3.Implies(lift(sol.store.holds), rows_), prop=P)
        c.prove("post:COMPLETE-only-the-rows-b(i)<=b(i+1)-for-i<k-2-(the-last-element-stays-free)", z3.Implies(rows_, lift(sol.store.holds)), prop=None, kind="complete")
    fresh = lambda old: Sym(z3.Bool(core.ctx().name("H")))
    return Unit("flowpaths/mingenset.py", "MinGenSet._encode_symmetry_breaking", h, globs=dict(utils=UtilsStub), props=[P],
                loops=split_loops({0: dict(inv=inv, prop=P, modifies=[(("self", "solver", "store", "holds"), fresh)], keep=("i",))}, P), callee_contracts=[A1C], assumptions=[A3])


# =====================================================================================================================
# AbstractWalkModelDiGraph._encode_walks (C01 / C14, cyclic models): the rows of the walk formulation (arXiv 2209.00042)

def u_encode_walks(allow_empty):
    P = "C01,C14"
    Y = z3.Function("selected_edge_var", INT, INT, INT, REAL)
    D = z3.Function("distance_var", INT, INT, REAL)
    UB = z3.Function("edge_upper_bound", INT, INT, REAL)
    NODE, NIDX = z3.Function("node_at", INT, INT), z3.Function("node_index", INT, INT)
    INDEG, OUTDEG = z3.Function("in_degree", INT, INT), z3.Function("out_degree", INT, INT)
    PRED, SUCC = z3.Function("pred_of", INT, INT, INT), z3.Function("succ_of", INT, INT, INT)
    st = {}
    i_, j_, a_, b_ = z3.Ints("qi qj qa qb")
    rng = lambda q, hi: z3.And(q >= 0, q < lift(hi))
    S_ = lambda t: Sym(t)

    def isnode(v):
        return z3.And(NIDX(v) >= 0, NIDX(v) < st["nn"], NODE(NIDX(v)) == v)

    def OUT(v, i): return st["OUT"](v, i, OUTDEG(v))
    def IN(v, i): return st["IN"](v, i, INDEG(v))
    def INY(v, i): return st["INY"](v, i, INDEG(v))
    def MV(v): return st["UBS"](v, INDEG(v))

    def r17a(i):
        return OUT(st["src"], i) <= 1 if allow_empty else OUT(st["src"], i) == 1

    def r17b(v, i): return IN(v, i) - OUT(v, i) == 0
    def r21(a, b, i): return lift(S_(X(a, b, i)) >= S_(Y(a, b, i)))
    def r22(v, i): return z3.And(lift(S_(IN(v, i)) <= S_(MV(v)) * S_(INY(v, i))), lift(S_(INY(v, i)) <= 1))
    def r18a(i): return D(st["src"], i) == 1
    def r19c(a, b, i): return lift(S_(D(b, i)) >= S_(D(a, i)) + 1 - S_(st["nn"] + 1) * (1 - S_(Y(a, b, i))))

    def eqv(ns, entry, body):
        return lift(ns["self"].solver.store.holds) == z3.And(st[entry], body)

    def snap(name, more=()):
        def on_entry(ns, it=None):
            st[name] = lift(ns["self"].solver.store.holds)
            for a in more:
                st["cur_" + a] = lift(ns[a])
        return on_entry

    def all_i(done, body): return z3.ForAll([i_], z3.Implies(rng(i_, done), body(i_)))
    def nodes_upto(done, body): return z3.ForAll([j_], z3.Implies(rng(j_, done), body(NODE(j_))))
    def edges_upto(done, body):
        g = st["g"]
        return z3.ForAll([j_], z3.Implies(rng(j_, done), body(g.EU(j_), g.EV(j_))))
    inner = lambda v: z3.And(v != st["src"], v != st["snk"])
    notsrc = lambda v: v != st["src"]
    invs = {
        0: lambda ns, seq, d: {"rows=one-unit-(at-most-one)-leaves-the-source-in-the-layers-seen": eqv(ns, "H0_", all_i(d, r17a))},
        1: lambda ns, seq, d: {"rows=conservation-at-inner-nodes-in-the-layers-seen": eqv(ns, "H1_", all_i(d, lambda i: nodes_upto(st["nn"], lambda v: z3.Implies(inner(v), r17b(v, i)))))},
        2: lambda ns, seq, d: {"rows=conservation-at-the-inner-nodes-seen": eqv(ns, "H2_", nodes_upto(d, lambda v: z3.Implies(inner(v), r17b(v, st["cur_i"]))))},
        3: lambda ns, seq, d: {"rows=selected=>used-in-the-layers-seen": eqv(ns, "H3_", all_i(d, lambda i: edges_upto(st["g"].n, lambda a, b: r21(a, b, i))))},
        4: lambda ns, seq, d: {"rows=selected=>used-on-the-edges-seen": eqv(ns, "H4_", edges_upto(d, lambda a, b: r21(a, b, st["cur_i"])))},
        5: lambda ns, seq, d: {"rows=entered-nodes-have-exactly-one-selected-in-edge,-in-the-layers-seen": eqv(ns, "H5_", all_i(d, lambda i: nodes_upto(st["nn"], lambda v: z3.Implies(notsrc(v), r22(v, i)))))},
        6: lambda ns, seq, d: {"rows=entered-nodes-have-exactly-one-selected-in-edge,-for-the-nodes-seen": eqv(ns, "H6_", nodes_upto(d, lambda v: z3.Implies(notsrc(v), r22(v, st["cur_i"]))))},
        7: lambda ns, seq, d: {"rows=source-distance-is-1-in-the-layers-seen": eqv(ns, "H7_", all_i(d, r18a))},
        8: lambda ns, seq, d: {"rows=distance-increases-along-selected-edges-in-the-layers-seen": eqv(ns, "H8_", all_i(d, lambda i: edges_upto(st["g"].n, lambda a, b: r19c(a, b, i))))},
        9: lambda ns, seq, d: {"rows=distance-increases-along-the-selected-edges-seen": eqv(ns, "H9_", edges_upto(d, lambda a, b: r19c(a, b, st["cur_i"])))},
    }

    def h(c, f):
        abstract_mul(c)
        g = Graph(c)
        k, nn = c.fresh_const("k", INT), c.fresh_const("n_nodes", INT)
        c.assume(z3.And(k >= 1, nn >= 0))
        src, snk = g.source.t, g.sink.t
        st.update(g=g, k=k, nn=nn, src=src, snk=snk)
        v, q = z3.Ints("hv hq")
        c.assume(z3.ForAll([q], z3.Implies(z3.And(q >= 0, q < nn), NIDX(NODE(q)) == q)))
        c.assume(z3.And(isnode(src), isnode(snk)))
        c.assume(z3.ForAll([a_, b_], z3.Implies(g.EDGE(a_, b_), z3.And(isnode(a_), isnode(b_)))))
        c.assume(z3.ForAll([v], z3.And(INDEG(v) >= 0, OUTDEG(v) >= 0)))
        c.assume(z3.ForAll([v, q], z3.Implies(z3.And(q >= 0, q < INDEG(v)), g.EDGE(PRED(v, q), v))))
        c.assume(z3.ForAll([v, q], z3.Implies(z3.And(q >= 0, q < OUTDEG(v)), g.EDGE(v, SUCC(v, q)))))
        st["OUT"] = prefix_sum(c, "outflow", lambda a, i, t: X(a, SUCC(a, t), i), 2)
        st["IN"] = prefix_sum(c, "inflow", lambda a, i, t: X(PRED(a, t), a, i), 2)
        st["INY"] = prefix_sum(c, "selected_in_edges", lambda a, i, t: Y(PRED(a, t), a, i), 2)
        st["UBS"] = prefix_sum(c, "sum_of_in_edge_upper_bounds", lambda a, t: UB(PRED(a, t), a), 1)
        edge_pred = lambda a, b, i: z3.And(g.EDGE(a, b), i >= 0, i < k)
        vert_pred = lambda vv, i: z3.And(isnode(vv), i >= 0, i < k)

        class EdgeView(SymSeq):
            def __call__(self, data=False): return g.edges(data)

        class NodeView(SymSeq):
            def __call__(self, data=False): return SymSeq(nn, lambda t: Sym(NODE(lift(t))), SInt, "nodes")

        class GG:
            source, sink = g.source, g.sink
            @property
            def edges(self): return EdgeView(g.n, lambda t: (Sym(g.EU(lift(t))), Sym(g.EV(lift(t)))), STuple(SInt, SInt), "edges")
            @property
            def nodes(self): return NodeView(nn, lambda t: Sym(NODE(lift(t))), SInt, "nodes")
            def successors(self, a): return SymSeq(OUTDEG(lift(a)), lambda t: Sym(SUCC(lift(a), lift(t))), SInt, "successors")
            def predecessors(self, a): return SymSeq(INDEG(lift(a)), lambda t: Sym(PRED(lift(a), lift(t))), SInt, "predecessors")
            def number_of_nodes(self): return Sym(nn)

        class UBMap:
            def __getitem__(self, key): return Sym(UB(lift(key[0]), lift(key[1])))

        class Me(Tracked):
            pass
        me = Me()
        sol = Solver({"edge": (X, 3), "distance": (D, 2), "selected_edge": (Y, 3)})
        sol.graph, sol.basic_pred = g, (lambda a, b: g.EDGE(a, b))
        cache = {}

        def recognise(indexes, name_prefix):
            if isinstance(indexes, LazyProduct):
                if id(indexes) in cache:
                    return cache[id(indexes)]
                a0, b0 = c.fresh_const("arbitrary_layer", INT), c.fresh_const("arbitrary_position", INT)
                it1 = indexes.it1
                if not (isinstance(it1, SymRange) and c._valid(lift(it1.length()) == k)):
                    raise Unsupported("product index list: outer iterable is not range(k)")
                c.assume(z3.And(a0 >= 0, a0 < k))
                x1 = it1.at(a0)
                it2 = indexes.it2fn(x1)
                n2 = lift(it2.length())
                c.assume(z3.And(b0 >= 0, b0 < n2))
                key = indexes.fn(x1)(it2.at(b0))
                if len(key) == 3 and c._valid(z3.And(n2 == g.n, lift(key[0]) == g.EU(b0), lift(key[1]) == g.EV(b0), lift(key[2]) == a0)):
                    r = IdxSet("edge_indexes", edge_pred, 3)
                elif len(key) == 2 and c._valid(z3.And(n2 == nn, lift(key[0]) == NODE(b0), lift(key[1]) == a0)):
                    r = IdxSet("vertex_indexes", vert_pred, 2)
                else:
                    raise Unsupported("product index list not recognised")
                r.source = indexes
                cache[id(indexes)] = r
                return r
            return indexes
        orig_add = sol.add_variables
        sol.add_variables = lambda indexes, name_prefix="", lb=0, ub=1, var_type="integer": orig_add(recognise(indexes, name_prefix), name_prefix=name_prefix, lb=lb, ub=ub, var_type=var_type)

        def linked_sum(it):
            r = Solver.quicksum(sol, it)
            bs = c.sums[-1]
            tj = z3.Int(c.name("tj"))
            t = bs.t(tj)
            cands = []
            if z3.is_app(t) and t.decl().eq(X):
                a, b, i = t.arg(0), t.arg(1), t.arg(2)
                cands += [(st["OUT"], (a, i), lambda q_: X(a, SUCC(a, q_), i), OUTDEG(a), "flow-out-of-the-node"), (st["IN"], (b, i), lambda q_: X(PRED(b, q_), b, i), INDEG(b), "flow-into-the-node")]
            elif z3.is_app(t) and t.decl().eq(Y):
                a, b, i = t.arg(0), t.arg(1), t.arg(2)
                cands += [(st["INY"], (b, i), lambda q_: Y(PRED(b, q_), b, i), INDEG(b), "selected-edges-into-the-node")]
            elif z3.is_app(t) and t.decl().eq(UB):
                b = t.arg(1)
                cands += [(st["UBS"], (b,), lambda q_: UB(PRED(b, q_), b), INDEG(b), "upper-bounds-of-the-edges-into-the-node")]
            for S, args, term, n, label in cands:
                if c._valid(z3.And(bs.n == n, t == term(tj))):
                    link_sum(c, "sum-built-by-the-code=" + label, lambda q_: S(*args, q_), lambda q_: z3.Implies(q_ >= 0, S(*args, q_ + 1) == S(*args, q_) + term(q_)), n, prop=P)
                    return r
            raise Unsupported("sum over something unexpected: %s" % t)
        sol.quicksum = linked_sum
        st["sum_builtin"] = linked_sum
        st["len_"] = lambda x: Sym(c.fresh_const("len_of_index_list", INT)) if isinstance(x, LazyProduct) else BUILTINS["len"](x)
        me.solver, me.G, me.k = sol, GG(), Sym(k)
        me.allow_empty_walks = allow_empty
        me.edge_upper_bounds = UBMap()
        me.solve_statistics = {}
        H0 = lift(sol.store.holds)
        f(me)
        H = lift(sol.store.holds)
        b01 = lambda t: z3.And(0 <= t, t <= 1, z3.IsInt(t))
        nnr = z3.ToReal(nn)
        full = z3.And(H0,
                      z3.ForAll([a_, b_, i_], z3.Implies(edge_pred(a_, b_, i_), z3.And(0 <= X(a_, b_, i_), X(a_, b_, i_) <= UB(a_, b_), z3.IsInt(X(a_, b_, i_)), b01(Y(a_, b_, i_))))),
                      z3.ForAll([a_, i_], z3.Implies(vert_pred(a_, i_), z3.And(0 <= D(a_, i_), D(a_, i_) <= nnr, z3.IsInt(D(a_, i_))))),
                      all_i(k, r17a), all_i(k, lambda i: nodes_upto(nn, lambda v_: z3.Implies(inner(v_), r17b(v_, i)))),
                      all_i(k, lambda i: edges_upto(g.n, lambda a, b: r21(a, b, i))),
                      all_i(k, lambda i: nodes_upto(nn, lambda v_: z3.Implies(notsrc(v_), r22(v_, i)))),
                      all_i(k, r18a), all_i(k, lambda i: edges_upto(g.n, lambda a, b: r19c(a, b, i))))
        c.prove("post:columns:multiplicity-x(e,i)-integer-in-[0,edge_upper_bound(e)],-selected-y(e,i)-0/1,-distance-d(v,i)-integer-in-[0,|V|]",
                z3.BoolVal(set(sol.created) == {"edge", "distance", "selected_edge"} and all(r["var_type"] == "integer" for r in sol.created.values())), prop=P)
        c.prove("post:SOUND-each-layer:-one-(at-most-one)-unit-leaves-the-source,-conservation-at-inner-nodes,-every-entered-node-has-exactly-one-selected-used-in-edge,-distances-start-at-1-and-increase-along-selected-edges",
                z3.Implies(H, full), prop=P)
        c.prove("post:COMPLETE-nothing-else-is-excluded", z3.Implies(full, H), prop=None, kind="complete")

    def concrete(inst):
        def hc(c, f):
            E, k, ub, s0, t0 = [tuple(e) for e in inst["edges"]], inst["k"], inst.get("ub", {}), inst["source"], inst["sink"]
            nodes = []
            for e in E:
                for a in e:
                    if a not in nodes:
                        nodes.append(a)
            node_list = list(nodes)

            class View(list):
                def __call__(self, data=False): return list(self)

            class GG:
                source, sink = s0, t0
                edges, nodes = View(E), View(node_list)
                def successors(self, a): return [b for (x, b) in E if x == a]
                def predecessors(self, a): return [x for (x, b) in E if b == a]
                def number_of_nodes(self): return len(node_list)

            class Me(Tracked):
                pass
            me = Me()
            sol = Solver({"edge": (X, 3), "distance": (D, 2), "selected_edge": (Y, 3)})
            me.solver, me.G, me.k = sol, GG(), k
            me.allow_empty_walks = allow_empty
            me.edge_upper_bounds = {e: ub.get(e, 1) for e in E}
            me.solve_statistics = {}
            H0 = lift(sol.store.holds)
            f(me)
            H = lift(sol.store.holds)
            S = lambda ts: sum(ts, z3.RealVal(0))
            b01 = lambda t: z3.And(0 <= t, t <= 1, z3.IsInt(t))
            n = len(node_list)
            rows = []
            for i in range(k):
                for (a, b) in E:
                    rows += [z3.And(0 <= X(a, b, i), X(a, b, i) <= z3.RealVal(ub.get((a, b), 1)), z3.IsInt(X(a, b, i))), b01(Y(a, b, i)), X(a, b, i) >= Y(a, b, i),
                             D(b, i) >= D(a, i) + 1 - z3.RealVal(n + 1) * (1 - Y(a, b, i))]
                for v in node_list:
                    rows.append(z3.And(0 <= D(v, i), D(v, i) <= n, z3.IsInt(D(v, i))))
                    ins, outs = [x for (x, b) in E if b == v], [b for (x, b) in E if x == v]
                    if v not in (s0, t0):
                        rows.append(S([X(x, v, i) for x in ins]) - S([X(v, b, i) for b in outs]) == 0)
                    if v != s0:
                        rows += [S([X(x, v, i) for x in ins]) <= z3.RealVal(sum(ub.get((x, v), 1) for x in ins)) * S([Y(x, v, i) for x in ins]), S([Y(x, v, i) for x in ins]) <= 1]
                out_s = S([X(s0, b, i) for (x, b) in E if x == s0])
                rows += [out_s <= 1 if allow_empty else out_s == 1, D(s0, i) == 1]
            full = z3.And(H0, *rows)
            c.prove("instance:SOUND-the-rows-of-the-walk-formulation-hold-in-every-admitted-assignment", z3.Implies(H, full), prop=P)
            c.prove("instance:COMPLETE-nothing-else-is-excluded", z3.Implies(full, H), prop=None, kind="complete")
        return hc

    def instances():
        return [(lab, concrete(i)) for lab, i in (
            ("cycle-with-entry-and-exit,k=1", dict(edges=[(0, 1), (1, 2), (2, 1), (2, 3)], k=1, source=0, sink=3, ub={(1, 2): 3, (2, 1): 3})),
            ("two-cycles-sharing-a-node,k=2", dict(edges=[(0, 1), (1, 2), (2, 1), (1, 3), (3, 1), (1, 4)], k=2, source=0, sink=4, ub={(1, 2): 2, (2, 1): 2, (1, 3): 3, (3, 1): 3})),
            ("self-loop,k=1", dict(edges=[(0, 1), (1, 1), (1, 2)], k=1, source=0, sink=2, ub={(1, 1): 4})))]

    fresh = lambda old: Sym(z3.Bool(core.ctx().name("H")))
    mod = [(("self", "solver", "store", "holds"), fresh)]
    keep = ("i", "v", "u", "incoming_flow_v", "incoming_selected_v", "M_v")
    loops = {}
    for o in range(10):
        nested = o in (2, 4, 6, 9)
        loops[o] = dict(inv=invs[o], prop=P, modifies=mod, on_entry=snap("H%d_" % o, ("i",) if nested else ()), keep=keep)

    def sum_builtin(it, start=0):
        if isinstance(it, (list, tuple)) or _is_concrete(it):
            return Solver.quicksum(None, it)
        return st["sum_builtin"](it)
    return Unit("flowpaths/abstractwalkmodeldigraph.py", "AbstractWalkModelDiGraph._encode_walks", h,
                globs=dict(utils=UtilsStub, sum=sum_builtin, len=lambda x: (st["len_"](x) if isinstance(x, LazyProduct) else BUILTINS["len"](x))), loops=split_loops(loops, P), props=["C01", "C14"],
                name="flowpaths/abstractwalkmodeldigraph.py:AbstractWalkModelDiGraph._encode_walks[allow_empty_walks=%s]" % allow_empty, callee_contracts=[A1C], instances=instances,
                assumptions=[A3, "A2 networkx: successors / predecessors enumerate the out- / in-neighbours; source and sink are nodes; edge endpoints are nodes",
                             "LM (not proved here): an assignment satisfying these rows is, per layer, the multiplicity vector of ONE closed-under-connectivity source-to-sink walk "
                             "(arXiv 2209.00042: the selected edges form an in-tree spanning the used nodes); the reconstruction's precondition `balanced and connected` rests on it; the bounded part checks the returned walks"])


# =====================================================================================================================
# Objectives (C07 / C08 / C16: "the reported objective is the solver's objective"): what is handed to set_objective

def u_objective_lae(relpath, cls):
    """k-Least-Absolute-Errors: minimise  sum over the non-ignored edges of  error(e) * scaling(e)   (scaling 1 when absent)"""
    P = "C07"
    BU, BV = z3.Function("basic_edge_tail", INT, INT), z3.Function("basic_edge_head", INT, INT)

    def h(c, f):
        nb = c.fresh_const("n_non_ignored_edges", INT)
        c.assume(nb >= 0)
        OBJ = prefix_sum(c, "scaled_error_sum", lambda q: EE(BU(q), BV(q)) * SCALE(BU(q), BV(q)), 0)

        class Me(Tracked):
            pass
        me = Me()
        sol = Solver({})

        def linked(it):
            r = Solver.quicksum(sol, it)
            bs = c.sums[-1]
            if not c._valid(bs.n == nb):
                raise Unsupported("objective sum over something else than the non-ignored edges")
            link_sum(c, "objective-built-by-the-code=sum-of-scaled-errors", lambda q: OBJ(q), lambda q: z3.Implies(q >= 0, OBJ(q + 1) == OBJ(q) + EE(BU(q), BV(q)) * SCALE(BU(q), BV(q))), nb, prop=P)
            return r
        sol.quicksum = linked
        me.solver = sol
        me.edge_indexes_basic = SymSeq(nb, lambda q: (Sym(BU(lift(q))), Sym(BV(lift(q)))), STuple(SInt, SInt), "edge_indexes_basic")
        me.edge_errors_vars = VarMap("edge_errors_vars", EE, lambda a, b: z3.BoolVal(True), 2)
        me.edge_error_scaling = ScaleMap()
        H0 = lift(sol.store.holds)
        f(me)
        objs = getattr(sol, "objectives", [])
        c.prove("post:the-objective-is-set-exactly-once,-to-be-minimised,-and-no-row-is-added", z3.BoolVal(len(objs) == 1 and objs[0][1] == "minimize" and lift(sol.store.holds).eq(H0)), prop=P)
        if len(objs) == 1:
            c.prove("post:objective=sum-over-the-non-ignored-edges-of-error(e)*scaling(e)-(the-quantity-get_objective_value-recomputes)", objs[0][0] == OBJ(nb), prop=P)
    def concrete(edges, scaled):
        def hc(c, f):
            class Me(Tracked):
                pass
            me = Me()
            sol = Solver({})
            me.solver = sol
            me.edge_indexes_basic = list(edges)
            me.edge_errors_vars = VarMap("edge_errors_vars", EE, lambda a, b: z3.BoolVal(True), 2)
            me.edge_error_scaling = {e: Sym(SCALE(*e)) for e in scaled}
            f(me)
            objs = getattr(sol, "objectives", [])
            want = sum([EE(*e) * (SCALE(*e) if e in scaled else 1) for e in edges], z3.RealVal(0))
            c.prove("instance:objective=sum-of-error*scaling-minimised", z3.And(z3.BoolVal(len(objs) == 1 and objs[0][1] == "minimize"), objs[0][0] == want) if objs else z3.BoolVal(False), prop=P)
        return hc

    def instances():
        return [("three-edges,one-scaled", concrete([(0, 1), (1, 2), (0, 2)], [(1, 2)])), ("two-edges,both-scaled", concrete([(0, 1), (1, 2)], [(0, 1), (1, 2)])), ("no-edge", concrete([], []))]
    return Unit(relpath, cls + "._encode_objective", h, globs=dict(utils=UtilsStub), props=[P], callee_contracts=[A1C, "SolverWrapper.set_objective replaces the objective (C12)"], instances=instances,
                assumptions=[A3, "edge_indexes_basic enumerates the non-ignored edges (established by the decomposition encoder, its own unit)"])


def u_objective_mpe(relpath, cls):
    """k-Min-Path-Error: minimise the sum of the path / walk slacks"""
    P = "C08"

    def h(c, f):
        k = c.fresh_const("k", INT)
        c.assume(k >= 1)
        OBJ = prefix_sum(c, "slack_sum", lambda q: SLACK(q), 0)

        class Me(Tracked):
            pass
        me = Me()
        sol = Solver({})

        def linked(it):
            r = Solver.quicksum(sol, it)
            bs = c.sums[-1]
            tj = z3.Int(c.name("tj"))
            if not c._valid(bs.t(tj) == SLACK(tj)):
                raise Unsupported("objective sum over something else than slacks")
            # linked up to the length the code sums over: a wrong length then shows in the postcondition, not as `unsupported`
            link_sum(c, "objective-built-by-the-code=sum-of-the-slacks", lambda q: OBJ(q), lambda q: z3.Implies(q >= 0, OBJ(q + 1) == OBJ(q) + SLACK(q)), bs.n, prop=P)
            return r
        sol.quicksum = linked
        me.solver, me.k = sol, Sym(k)
        me.path_slacks_vars = VarMap("path_slacks_vars", SLACK, lambda i: z3.And(i >= 0, i < k), 1)
        H0 = lift(sol.store.holds)
        f(me)
        objs = getattr(sol, "objectives", [])
        c.prove("post:the-objective-is-set-exactly-once,-to-be-minimised,-and-no-row-is-added", z3.BoolVal(len(objs) == 1 and objs[0][1] == "minimize" and lift(sol.store.holds).eq(H0)), prop=P)
        if len(objs) == 1:
            c.prove("post:objective=sum-of-the-k-slacks-(the-quantity-get_objective_value-recomputes)", objs[0][0] == OBJ(k), prop=P)
    def concrete(kk):
        def hc(c, f):
            class Me(Tracked):
                pass
            me = Me()
            sol = Solver({})
            me.solver, me.k = sol, kk
            me.path_slacks_vars = VarMap("path_slacks_vars", SLACK, lambda i: z3.BoolVal(True), 1)
            f(me)
            objs = getattr(sol, "objectives", [])
            c.prove("instance:objective=sum-of-the-k-slacks-minimised", z3.And(z3.BoolVal(len(objs) == 1 and objs[0][1] == "minimize"), objs[0][0] == sum([SLACK(i) for i in range(kk)], z3.RealVal(0))) if objs else z3.BoolVal(False), prop=P)
        return hc
    return Unit(relpath, cls + "._encode_objective", h, globs=dict(utils=UtilsStub), props=[P], callee_contracts=[A1C, "SolverWrapper.set_objective replaces the objective (C12)"], assumptions=[A3],
                instances=lambda: [("k=1", concrete(1)), ("k=3", concrete(3))])


def u_objective_mef():
    """MinErrorFlow: minimise  sum over the non-ignored edges of  error(e) * scaling(e)  +  lambda * (corrected flow leaving the source)  [lambda > 0]"""
    P = "C16"
    XV, ER = z3.Function("corrected_flow_var", INT, INT, REAL), z3.Function("edge_error_var", INT, INT, REAL)
    SO = z3.Function("source_out_neighbour", INT, INT)

    def h(c, f):
        g = Graph(c)
        lam = c.fresh_const("sparsity_lambda", REAL)
        nso = c.fresh_const("source_out_degree", INT)
        c.assume(z3.And(lam >= 0, nso >= 0))
        q_ = z3.Int("hq")
        c.assume(z3.ForAll([q_], z3.Implies(z3.And(q_ >= 0, q_ < nso), g.EDGE(g.source.t, SO(q_)))))
        term = lambda q: z3.If(z3.Not(IGN(g.EU(q), g.EV(q))), ER(g.EU(q), g.EV(q)) * SCALE(g.EU(q), g.EV(q)), z3.RealVal(0))
        OBJ = prefix_sum(c, "scaled_error_sum_over_kept_edges", term, 0)
        SRC = prefix_sum(c, "corrected_flow_out_of_source", lambda q: XV(g.source.t, SO(q)), 0)

        class GG:
            source = g.source
            def edges(self, data=False): return g.edges(data)
            def out_edges(self, a): return SymSeq(nso, lambda q: (a, Sym(SO(lift(q)))), STuple(SInt, SInt), "out_edges")

        class Me(Tracked):
            pass
        me = Me()
        sol = Solver({})

        def linked(it):
            r = Solver.quicksum(sol, it)
            bs = c.sums[-1]
            tj = z3.Int(c.name("tj"))
            t = bs.t(tj)
            if c._valid(z3.And(bs.n == g.n, t == term(tj))):
                link_sum(c, "sum-built-by-the-code=scaled-errors-of-the-non-ignored-edges", lambda q: OBJ(q), lambda q: z3.Implies(q >= 0, OBJ(q + 1) == OBJ(q) + term(q)), g.n, prop=P)
            elif c._valid(z3.And(bs.n == nso, t == XV(g.source.t, SO(tj)))):
                link_sum(c, "sum-built-by-the-code=corrected-flow-leaving-the-source", lambda q: SRC(q), lambda q: z3.Implies(q >= 0, SRC(q + 1) == SRC(q) + XV(g.source.t, SO(q))), nso, prop=P)
            else:
                raise Unsupported("objective sum not recognised: %s" % t)
            return r
        sol.quicksum = linked
        me.solver, me.G = sol, GG()
        me.edge_error_vars = VarMap("edge_error_vars", ER, lambda a, b: g.EDGE(a, b), 2)
        me.edge_vars = VarMap("edge_vars", XV, lambda a, b: g.EDGE(a, b), 2)
        me.edge_error_scaling = ScaleMap()
        me.edges_to_ignore = Member(IGN, "ignored")
        me.sparsity_lambda = Sym(lam)
        H0 = lift(sol.store.holds)
        f(me)
        objs = getattr(sol, "objectives", [])
        c.prove("post:the-objective-is-set-exactly-once,-to-be-minimised,-and-no-row-is-added", z3.BoolVal(len(objs) == 1 and objs[0][1] == "minimize" and lift(sol.store.holds).eq(H0)), prop=P)
        if len(objs) == 1:
            c.prove("post:objective=sum-over-non-ignored-edges-of-error*scaling-plus-lambda*(flow-leaving-the-source)",
                    objs[0][0] == OBJ(g.n) + z3.If(lam > 0, lam * SRC(nso), z3.RealVal(0)), prop=P)
    return Unit("flowpaths/minerrorflow.py", "MinErrorFlow._encode_min_sum_errors_objective", h, globs=dict(utils=UtilsStub), props=[P],
                callee_contracts=[A1C, "SolverWrapper.set_objective replaces the objective (C12)"], assumptions=[A3, "A2 out_edges(source) enumerates the edges leaving the source"])


def objective_units():
    return [u_objective_lae("flowpaths/kleastabserrors.py", "kLeastAbsErrors"), u_objective_lae("flowpaths/kleastabserrorscycles.py", "kLeastAbsErrorsCycles"),
            u_objective_mpe("flowpaths/kminpatherror.py", "kMinPathError"), u_objective_mpe("flowpaths/kminpatherrorcycles.py", "kMinPathErrorCycles"), u_objective_mef()]


# =====================================================================================================================
# Given-weights encoders of the DAG models (solution_weights_superset): weights are DATA, layers only choose paths

# =====================================================================================================================
# MinSetCover._encode_set_cover (C15): one 0/1 column per subset, one covering row per universe element, weighted objective

def u_setcover():
    P = "C15"
    XS = z3.Function("subset_var", INT, REAL)
    INS = z3.Function("element_in_subset", INT, INT, BOOL)           # (element, subset index)
    WS = z3.Function("subset_weight", INT, REAL)
    UE = z3.Function("universe_element_at", INT, INT)
    st = {}

    def cover_term(e, i): return z3.If(INS(e, i), XS(i), z3.RealVal(0))
    def obj_term(i): return mul(WS(i), XS(i))

    def inv(ns, seq, done):
        j = z3.Int("sj")
        return {"rows-so-far=exactly-(the-chosen-subsets-containing-the-element-number-at-least-1)-for-the-elements-seen":
                lift(ns["self"].solver.store.holds) == z3.And(st["H1"], z3.ForAll([j], z3.Implies(z3.And(j >= 0, j < lift(done)), st["CS"](UE(j), st["m"]) >= 1)))}

    def on_entry(ns, it=None):
        st["H1"] = lift(ns["self"].solver.store.holds)

    def h(c, f):
        abstract_mul(c)
        m, nU = c.fresh_const("n_subsets", INT), c.fresh_const("n_universe", INT)
        c.assume(z3.And(m >= 0, nU >= 0))
        st.update(m=m)
        st["CS"] = prefix_sum(c, "chosen_subsets_containing", lambda e, q: cover_term(e, q), 1)
        st["OS"] = prefix_sum(c, "weighted_choice", lambda q: obj_term(q), 0)

        class Subset:
            def __init__(self, i): self.i = lift(i)
            def sym_contains(self, e): return Sym(INS(lift(e), self.i))
            def __contains__(self, e): return bool(self.sym_contains(e))

        class Me(Tracked):
            pass
        me = Me()
        sol = Solver({"subset": (XS, 1)})
        sol.store.holds = Sym(z3.BoolVal(True))              # a freshly created model has no rows

        def recognise(indexes, name_prefix):
            if isinstance(indexes, SymSeq) and name_prefix == "subset":
                q0 = c.fresh_const("arbitrary_position", INT)
                c.assume(z3.And(q0 >= 0, q0 < m))
                if c._valid(z3.And(lift(indexes.length()) == m, lift(indexes.at(q0)) == q0)):
                    return IdxSet("subset_indexes", lambda i: z3.And(i >= 0, i < m), 1)
            raise Unsupported("index list not recognised (%s)" % name_prefix)
        orig_add = sol.add_variables
        sol.add_variables = lambda indexes, name_prefix="", lb=0, ub=1, var_type="integer": orig_add(recognise(indexes, name_prefix), name_prefix=name_prefix, lb=lb, ub=ub, var_type=var_type)

        def linked_sum(it):
            r = Solver.quicksum(sol, it)
            bs = c.sums[-1]
            tj = z3.Int(c.name("tj"))
            t = bs.t(tj)
            if not c._valid(bs.n == m):
                raise Unsupported("a sum over something else than the subsets")
            e = st.get("cur_e")
            if e is not None and c._valid(t == cover_term(e, tj)):
                S = st["CS"]
                link_sum(c, "sum-built-by-the-code=number-of-chosen-subsets-containing-the-element", lambda q: S(e, q), lambda q: z3.Implies(q >= 0, S(e, q + 1) == S(e, q) + cover_term(e, q)), m, prop=P)
                return r
            if c._valid(t == obj_term(tj)):
                S = st["OS"]
                link_sum(c, "sum-built-by-the-code=total-weight-of-the-chosen-subsets", lambda q: S(q), lambda q: z3.Implies(q >= 0, S(q + 1) == S(q) + obj_term(q)), m, prop=P)
                return r
            # a sum of another shape is not linked to a specification sum: the clauses that need it stay open and the concrete instances decide
            c.assume(bs.defn())
            return r
        sol.quicksum = linked_sum

        class Universe(SymSeq):
            def _at_(self, j): pass
        uni = SymSeq(nU, lambda j: _track(Sym(UE(lift(j)))), SInt, "universe")

        def _track(x):
            st["cur_e"] = x.t
            return x

        class SWMod:
            @staticmethod
            def SolverWrapper(**kw):
                return sol
        st["sw"] = SWMod
        me.solver_options = {}
        me.subsets = SymSeq(m, lambda i: Subset(i), None, "subsets")
        me.subset_weights = SymSeq(m, lambda i: Sym(WS(lift(i))), SReal, "subset_weights")
        me.universe = uni
        f(me)
        H = lift(sol.store.holds)
        i_, j_ = z3.Ints("pi pj")
        bounds = z3.ForAll([i_], z3.Implies(z3.And(i_ >= 0, i_ < m), z3.And(XS(i_) >= 0, XS(i_) <= 1, z3.IsInt(XS(i_)))))
        spec = z3.And(bounds, z3.ForAll([j_], z3.Implies(z3.And(j_ >= 0, j_ < nU), st["CS"](UE(j_), m) >= 1)))
        c.prove("post:SOUND-every-admitted-assignment-is-a-0/1-choice-of-subsets-in-which-every-universe-element-lies-in-a-chosen-subset", z3.Implies(H, spec), prop=P)
        c.prove("post:COMPLETE-every-such-choice-is-admitted", z3.Implies(spec, H), prop=None, kind="complete")
        c.prove("post:exactly-the-subset-columns-are-created", z3.BoolVal(set(sol.created) == {"subset"}), prop=P)
        objs = getattr(sol, "objectives", [])
        c.prove("post:an-objective-is-set,-the-one-in-force-is-to-be-minimised", z3.BoolVal(len(objs) >= 1 and objs[-1][1] == "minimize"), prop=P)
        if len(objs) >= 1:
            c.prove("post:the-objective-in-force=total-weight-of-the-chosen-subsets", objs[-1][0] == st["OS"](m), prop=P)

    def concrete(inst):
        def hc(c, f):
            universe, subsets, weights = inst["universe"], inst["subsets"], inst["weights"]

            class Me(Tracked):
                pass
            me = Me()
            sol = Solver({"subset": (XS, 1)})
            sol.store.holds = Sym(z3.BoolVal(True))

            class SWMod:
                @staticmethod
                def SolverWrapper(**kw):
                    return sol
            st["sw"] = SWMod
            orig_add = sol.add_variables
            sol.add_variables = lambda indexes, name_prefix="", lb=0, ub=1, var_type="integer": orig_add(
                concrete_idx("subset_indexes", [(int(i),) for i in indexes], 1), name_prefix=name_prefix, lb=lb, ub=ub, var_type=var_type)
            me.solver_options, me.subsets, me.subset_weights, me.universe = {}, [list(x) for x in subsets], list(weights), list(universe)
            f(me)
            H = lift(sol.store.holds)
            xs = [XS(z3.IntVal(i)) for i in range(len(subsets))]
            full = z3.And(*([z3.And(x >= 0, x <= 1, z3.IsInt(x)) for x in xs] +
                            [sum([xs[i] for i in range(len(subsets)) if e in subsets[i]], z3.RealVal(0)) >= 1 for e in universe]))
            c.prove("instance:SOUND-0/1-choice-covering-every-element", z3.Implies(H, full), prop=P)
            c.prove("instance:COMPLETE-nothing-else-is-excluded", z3.Implies(full, H), prop=None, kind="complete")
            objs = getattr(sol, "objectives", [])
            want = sum([z3.RealVal(str(weights[i])) * xs[i] for i in range(len(subsets))], z3.RealVal(0))
            c.prove("instance:objective=total-weight,-minimised", z3.And(z3.BoolVal(len(objs) == 1 and objs[0][1] == "minimize"), (objs[0][0] == want) if objs else z3.BoolVal(False)), prop=P)
        return hc

    def instances():
        return [(lab, concrete(i)) for lab, i in (
            ("3 elements, 3 subsets", dict(universe=[0, 1, 2], subsets=[[0, 1], [1, 2], [2]], weights=[1, 2, 1])),
            ("element in two subsets, fractional weights", dict(universe=[0, 1], subsets=[[0], [0, 1], [1]], weights=[0.5, 1.5, 1])),
            ("subset with a foreign element, zero weight", dict(universe=[1, 2], subsets=[[1, 9], [2, 9], [1, 2]], weights=[0, 1, 3])))]

    fresh = lambda old: Sym(z3.Bool(core.ctx().name("H")))
    loops = {0: dict(inv=inv, prop=P, on_entry=on_entry, modifies=[(("self", "solver", "store", "holds"), fresh)], keep=("element",))}

    class SWProxy:
        @staticmethod
        def SolverWrapper(**kw):
            return st["sw"].SolverWrapper(**kw)
    return Unit("flowpaths/minsetcover.py", "MinSetCover._encode_set_cover", h, globs=dict(utils=UtilsStub, sw=SWProxy), loops=split_loops(loops, P), props=[P], instances=instances,
                callee_contracts=[A1C, "SolverWrapper.set_objective replaces the objective (C12)"],
                assumptions=[A3, "membership of an element in a subset is an arbitrary relation; weights are arbitrary reals (weight x column is an uninterpreted product)"])



def find_app(t, decl):
    todo = [t]
    while todo:
        x = todo.pop()
        if z3.is_app(x):
            if x.decl().eq(decl):
                return x
            todo += list(x.children())
    return None


def given_weights_unit(relpath, qualname, P, wt, kind):
    SW = z3.Function("given_weight", INT, REAL)
    OUTDEG, SUCC = z3.Function("out_degree", INT, INT), z3.Function("succ_of", INT, INT, INT)
    st = {}
    i_, j_ = z3.Ints("qi qj")

    def wterm(u, v, q): return mul(SW(q), X(u, v, q))

    def edge_row(g, u, v):
        k = st["k"]
        WS, fl = st["WS"](u, v, k), g.FLOW(u, v)
        if kind == "fd":
            return WS == fl
        if kind == "lae":
            return z3.And(fl - WS <= EE(u, v), -fl + WS <= EE(u, v))
        GS = st["GS"](u, v, k)
        return z3.And(lift(Sym(fl - WS) * Sym(SCALE(u, v)) <= Sym(GS)), lift(Sym(fl - WS) * Sym(SCALE(u, v)) >= -Sym(GS)),
                      z3.ForAll([i_], z3.Implies(z3.And(i_ >= 0, i_ < k), GAMMA(u, v, i_) == mul(X(u, v, i_), SLACK(i_)))))

    def inv_outer(ns, seq, done):
        g = st["g"]
        return {"rows-so-far=exactly-the-specified-rows-on-the-non-ignored-edges-seen":
                lift(ns["self"].solver.store.holds) == z3.And(st["H1"], z3.ForAll([j_], z3.Implies(z3.And(j_ >= 0, j_ < lift(done), z3.Not(IGN(g.EU(j_), g.EV(j_)))), edge_row(g, g.EU(j_), g.EV(j_)))))}

    def on_entry_i(ns, it=None):
        st["Hin"] = lift(ns["self"].solver.store.holds)
        st["cur"] = (lift(ns["u"]), lift(ns["v"]))

    def inv_inner(ns, seq, done):
        u, v = st["cur"]
        return {"product-rows-so-far=exactly-(gamma = x * slack)-for-the-paths-seen":
                lift(ns["self"].solver.store.holds) == z3.And(st["Hin"], z3.ForAll([i_], z3.Implies(z3.And(i_ >= 0, i_ < lift(done)), GAMMA(u, v, i_) == mul(X(u, v, i_), SLACK(i_)))))}

    def h(c, f):
        abstract_mul(c)
        g = Graph(c)
        k, L, ok_ = c.fresh_const("k", INT), c.fresh_const("len_of_given_weights", INT), c.fresh_const("original_k", INT)
        wmax = c.fresh_const("w_max", REAL)
        c.assume(z3.And(k >= 1, L >= 0, ok_ >= 1, wmax >= 0))
        src = g.source.t
        st.update(g=g, k=k)
        v_, q_ = z3.Ints("hv hq")
        c.assume(z3.ForAll([v_], OUTDEG(v_) >= 0))
        c.assume(z3.ForAll([v_, q_], z3.Implies(z3.And(q_ >= 0, q_ < OUTDEG(v_)), g.EDGE(v_, SUCC(v_, q_)))))
        st["WS"] = prefix_sum(c, "weighted_paths_through_edge", lambda u, v, q: wterm(u, v, q), 2)
        st["GS"] = prefix_sum(c, "sum_gamma", lambda u, v, q: GAMMA(u, v, q), 2)
        OUT = prefix_sum(c, "outflow", lambda a, i, t: X(a, SUCC(a, t), i), 2)
        USED = prefix_sum(c, "paths_used", lambda q: OUT(src, q, OUTDEG(src)), 0)
        COL = prefix_sum(c, "layers_using_source_edge", lambda t, q: X(src, SUCC(src, t), q), 1)
        USED2 = prefix_sum(c, "paths_used_by_source_edge", lambda t: COL(t, k), 0)
        edge_pred = lambda a, b, i: z3.And(g.EDGE(a, b), i >= 0, i < k)

        class GG:
            source, sink = g.source, g.sink
            def edges(self, data=False): return g.edges(data)
            def successors(self, a): return SymSeq(OUTDEG(lift(a)), lambda t: Sym(SUCC(lift(a), lift(t))), SInt, "successors")

        class Me(Tracked):
            pass
        me = Me()
        fams = {"ee": (EE, 2), "slack": (SLACK, 1), "gamma": (GAMMA, 3)}
        sol = Solver(fams)
        sol.graph, sol.basic_pred = g, (lambda a, b: z3.And(g.EDGE(a, b), z3.Not(IGN(a, b))))
        from pyvc.heap import BigSum

        def linked_sum(it):
            # product generator  x(s,v,i) for v in successors(s) for i in range(k)  (the objective of the flow-decomposition variant)
            if isinstance(it, LazyProduct):
                t0 = c.fresh_const("arbitrary_source_edge", INT)
                c.assume(z3.And(t0 >= 0, t0 < OUTDEG(src)))
                it1 = it.it1
                if not (isinstance(it1, SymSeq) and c._valid(z3.And(lift(it1.length()) == OUTDEG(src), lift(it1.at(t0)) == SUCC(src, t0)))):
                    raise Unsupported("product generator: outer iterable is not successors(source)")
                x1 = it1.at(t0)
                it2 = it.it2fn(x1)
                inner = BigSum(lift(it2.length()), lambda i: it.fn(x1)(it2.at(i)), REAL, "sum")
                c.sums.append(inner) if hasattr(c, "sums") else setattr(c, "sums", [inner])
                tj = z3.Int(c.name("tj"))
                if not c._valid(z3.And(inner.n == k, inner.t(tj) == X(src, SUCC(src, t0), tj))):
                    raise Unsupported("product generator: inner term is not x(source, successor, i)")
                link_sum(c, "inner-sum=layers-using-an-(arbitrary)-source-edge", lambda q: COL(t0, q), lambda q: z3.Implies(q >= 0, COL(t0, q + 1) == COL(t0, q) + X(src, SUCC(src, t0), q)), k, prop=P)
                outer = BigSum(OUTDEG(src), lambda t: Sym(COL(lift(t), k)), REAL, "sum")
                c.sums.append(outer)
                link_sum(c, "outer-sum=paths-used,-counted-by-source-edge", lambda q: USED2(q), lambda q: z3.Implies(q >= 0, USED2(q + 1) == USED2(q) + COL(q, k)), OUTDEG(src), prop=P)
                return outer.value
            if isinstance(it, LazyMap) and isinstance(it.seq, SymRange) and it.flt is None:
                # possibly a sum of sums: evaluate the term at an arbitrary layer; if that built (and linked) an inner sum, the outer sum is over its canonical value
                i0 = c.fresh_const("arbitrary_layer", INT)
                c.assume(z3.And(i0 >= 0, i0 < k))
                n_before = len(getattr(c, "sums", []))
                val = it.fn(Sym(i0))
                if len(getattr(c, "sums", [])) > n_before:
                    if not (c._valid(lift(it.seq.length()) == k) and c._valid(lift(val) == OUT(src, i0, OUTDEG(src)))):
                        raise Unsupported("sum of sums not recognised as `edges leaving the source, per layer`")
                    outer = BigSum(k, lambda i: Sym(OUT(src, lift(i), OUTDEG(src))), REAL, "sum")
                    c.sums.append(outer)
                    link_sum(c, "outer-sum=number-of-paths-used", lambda q: USED(q), lambda q: z3.Implies(q >= 0, USED(q + 1) == USED(q) + OUT(src, q, OUTDEG(src))), k, prop=P)
                    return outer.value
            r = Solver.quicksum(sol, it)
            bs = c.sums[-1]
            tj = z3.Int(c.name("tj"))
            t = bs.t(tj)
            xa = find_app(t, X)
            if xa is not None and c._valid(z3.And(bs.n == k, t == wterm(xa.arg(0), xa.arg(1), tj))):
                u, v = xa.arg(0), xa.arg(1)
                S = st["WS"]
                link_sum(c, "sum-built-by-the-code=sum_i-given_weight(i)*x(u,v,i)", lambda q: S(u, v, q), lambda q: z3.Implies(q >= 0, S(u, v, q + 1) == S(u, v, q) + wterm(u, v, q)), k, prop=P)
            elif z3.is_app(t) and t.decl().eq(GAMMA) and c._valid(z3.And(bs.n == k, t == GAMMA(t.arg(0), t.arg(1), tj))):
                u, v = t.arg(0), t.arg(1)
                S = st["GS"]
                link_sum(c, "sum-built-by-the-code=sum_i-gamma(u,v,i)", lambda q: S(u, v, q), lambda q: z3.Implies(q >= 0, S(u, v, q + 1) == S(u, v, q) + GAMMA(u, v, q)), k, prop=P)
            elif xa is not None and c._valid(z3.And(bs.n == OUTDEG(xa.arg(0)), t == X(xa.arg(0), SUCC(xa.arg(0), tj), xa.arg(2)))):
                a, i = xa.arg(0), xa.arg(2)
                link_sum(c, "sum-built-by-the-code=edges-leaving-the-node-in-the-layer", lambda q: OUT(a, i, q), lambda q: z3.Implies(q >= 0, OUT(a, i, q + 1) == OUT(a, i, q) + X(a, SUCC(a, q), i)), OUTDEG(a), prop=P)
            else:
                raise Unsupported("sum not recognised: %s" % t)
            return r
        sol.quicksum = linked_sum
        orig_add = sol.add_variables

        def add_variables(*a, **kw):
            r = orig_add(*a, **kw)
            st["H1"] = lift(sol.store.holds)
            return r
        sol.add_variables = add_variables
        me.solver, me.G = sol, GG()
        me.k, me.original_k, me.w_max, me.flow_attr = Sym(k), Sym(ok_), Sym(wmax), "flow"
        me.weight_type = BUILTINS["int"] if wt is int else BUILTINS["float"]
        me.solution_weights_superset = SymSeq(L, lambda q: Sym(SW(lift(q))), SReal0, "solution_weights_superset")
        me.optimization_options = {}
        me.allow_empty_paths = True
        me.path_length_factors, me.path_length_ranges = [], []
        me.edge_indexes = IdxSet("edge_indexes", edge_pred, 3)
        me.path_indexes = IdxSet("path_indexes", lambda i: z3.And(i >= 0, i < k), 1)
        me.edge_vars = VarMap("edge_vars", X, edge_pred, 3)
        me.edges_to_ignore = Member(IGN, "ignored")
        me.edge_error_scaling = ScaleMap()
        me.is_solved = lambda: False
        for a in ("edge_errors_vars", "gamma_vars", "path_slacks_vars"):
            setattr(me, a, {})
        H0 = lift(sol.store.holds)
        st["H1"] = H0
        u, v, i = z3.Ints("hu hv hi")
        c.assume(z3.Implies(H0, z3.ForAll([u, v, i], z3.Implies(edge_pred(u, v, i), z3.Or(X(u, v, i) == 0, X(u, v, i) == 1)))))
        try:
            f(me)
        except ValueError:
            c.prove("xpost:ValueError-only-if-the-number-of-given-weights-differs-from-k", L != k, prop=P, kind="xpost")
            c.prove("xpost:nothing-was-added-before-the-error", z3.BoolVal(lift(sol.store.holds).eq(H0)), prop=P, kind="xpost")
            return
        H = lift(sol.store.holds)
        c.prove("post:normal-return-only-with-exactly-k-given-weights", L == k, prop=P)
        want = {"fd": {}, "lae": {"ee": "wt"}, "mpe": {"slack": "wt", "gamma": "continuous"}}[kind]
        tn = lambda t: ("integer" if wt is int else "continuous") if t == "wt" else t
        c.prove("post:exactly-the-declared-column-families-are-created", z3.BoolVal({nm: r["var_type"] for nm, r in sol.created.items()} == {nm: tn(t) for nm, t in want.items()}), prop=P)
        num = lambda t, integer: z3.And(0 <= t, t <= wmax, *([z3.IsInt(t)] if integer else []))
        bnds = []
        if kind == "lae":
            bnds.append(z3.ForAll([u, v], z3.Implies(z3.And(g.EDGE(u, v), z3.Not(IGN(u, v))), num(EE(u, v), wt is int))))
        if kind == "mpe":
            bnds.append(z3.ForAll([i], z3.Implies(z3.And(i >= 0, i < k), num(SLACK(i), wt is int))))
            bnds.append(z3.ForAll([u, v, i], z3.Implies(edge_pred(u, v, i), num(GAMMA(u, v, i), False))))
        spec = z3.And(z3.ForAll([u, v], z3.Implies(z3.And(g.EDGE(u, v), z3.Not(IGN(u, v))), edge_row(g, u, v))), USED(k) <= z3.ToReal(ok_))
        full = z3.And(H0, *bnds, spec)
        # proved conjunct by conjunct (one large quantified conjunction made the solver's verdict depend on its seed)
        c.prove("post:SOUND-on-every-non-ignored-edge-the-rows-speak-about-sum_i given_weight(i)*x(u,v,i)",
                z3.Implies(H, z3.ForAll([u, v], z3.Implies(z3.And(g.EDGE(u, v), z3.Not(IGN(u, v))), edge_row(g, u, v)))), prop=P)
        c.prove("post:SOUND-at-most-original_k-layers-leave-the-source", z3.Implies(H, USED(k) <= z3.ToReal(ok_)), prop=P)
        c.prove("post:SOUND-earlier-rows-kept-and-new-columns-within-their-bounds", z3.Implies(H, z3.And(H0, *bnds)), prop=P)
        c.prove("post:COMPLETE-nothing-else-is-excluded", z3.Implies(full, H), prop=None, kind="complete")
        objs = getattr(sol, "objectives", [])
        if kind == "fd":
            c.prove("post:objective=number-of-paths-used-(edges-leaving-the-source-summed-over-the-layers),-minimised",
                    z3.And(z3.BoolVal(len(objs) == 1 and objs[0][1] == "minimize"), objs[0][0] == USED2(OUTDEG(src))) if objs else z3.BoolVal(False), prop=P)
        else:
            c.prove("post:no-objective-is-set-here", z3.BoolVal(not objs), prop=P)

    def concrete(inst):
        def hc(c, f):
            E, k, ok_, s0 = [tuple(e) for e in inst["edges"]], inst["k"], inst["original_k"], inst["source"]
            ign = set(map(tuple, inst.get("ign", ())))
            wmax = c.fresh_const("w_max", REAL)
            c.assume(wmax >= 0)

            class Data:
                def __init__(self, u, v): self.u, self.v = u, v
                def __getitem__(self, key): return Sym(FLOWC(self.u, self.v))

            class GG:
                source = s0
                def edges(self, data=False): return [(u, v, Data(u, v)) for u, v in E] if data else list(E)
                def successors(self, a): return [b for (x, b) in E if x == a]
            members = [(u, v, i) for i in range(k) for (u, v) in E]

            class Me(Tracked):
                pass
            me = Me()
            sol = Solver({"ee": (EE, 2), "slack": (SLACK, 1), "gamma": (GAMMA, 3)})
            me.solver, me.G = sol, GG()
            me.k, me.original_k, me.w_max, me.flow_attr = k, ok_, Sym(wmax), "flow"
            me.weight_type = BUILTINS["int"] if wt is int else BUILTINS["float"]
            me.solution_weights_superset = [Sym(SW(z3.IntVal(i))) for i in range(inst.get("n_weights", k))]
            me.optimization_options, me.allow_empty_paths = {}, True
            me.path_length_factors, me.path_length_ranges = [], []
            me.edge_indexes = concrete_idx("edge_indexes", members, 3)
            me.path_indexes = concrete_idx("path_indexes", [(i,) for i in range(k)], 1)
            me.edge_vars = VarMap("edge_vars", X, me.edge_indexes.pred, 3)
            me.edges_to_ignore, me.edge_error_scaling = ign, CScaleMap()
            me.is_solved = lambda: False
            H0 = lift(sol.store.holds)
            c.assume(z3.Implies(H0, z3.And(*[z3.Or(X(*m_) == 0, X(*m_) == 1) for m_ in members])))
            try:
                f(me)
            except ValueError:
                c.prove("instance:ValueError-only-if-the-number-of-given-weights-differs-from-k", z3.BoolVal(inst.get("n_weights", k) != k), prop=P)
                return
            c.prove("instance:normal-return-only-with-exactly-k-given-weights", z3.BoolVal(inst.get("n_weights", k) == k), prop=P)
            H = lift(sol.store.holds)
            S = lambda ts: sum(ts, z3.RealVal(0))
            num = lambda t, integer: z3.And(0 <= t, t <= wmax, *([z3.IsInt(t)] if integer else []))
            rows = []
            basic = [e for e in E if e not in ign]
            if kind == "lae":
                rows += [num(EE(*e), wt is int) for e in basic]
            if kind == "mpe":
                rows += [num(SLACK(i), wt is int) for i in range(k)] + [num(GAMMA(*m_), False) for m_ in members]
            for (u, v) in basic:
                WSv, fl = S([SW(i) * X(u, v, i) for i in range(k)]), FLOWC(u, v)
                if kind == "fd":
                    rows.append(WSv == fl)
                elif kind == "lae":
                    rows += [fl - WSv <= EE(u, v), -fl + WSv <= EE(u, v)]
                else:
                    GSv = S([GAMMA(u, v, i) for i in range(k)])
                    rows += [(fl - WSv) * SCALE(u, v) <= GSv, (fl - WSv) * SCALE(u, v) >= -GSv] + [GAMMA(u, v, i) == X(u, v, i) * SLACK(i) for i in range(k)]
            used = S([X(s0, b, i) for i in range(k) for (x, b) in E if x == s0])
            rows.append(used <= ok_)
            full = z3.And(H0, *rows)
            c.prove("instance:SOUND-rows-speak-about-sum_i-given_weight(i)*x(u,v,i);-at-most-original_k-layers-leave-the-source", z3.Implies(H, full), prop=P)
            c.prove("instance:COMPLETE-nothing-else-is-excluded", z3.Implies(full, H), prop=None, kind="complete")
            objs = getattr(sol, "objectives", [])
            if kind == "fd":
                c.prove("instance:objective=number-of-paths-used,-minimised", z3.And(z3.BoolVal(len(objs) == 1 and objs[0][1] == "minimize"), objs[0][0] == used) if objs else z3.BoolVal(False), prop=P)
        return hc

    def instances():
        D = [(0, 1), (0, 2), (1, 3), (2, 3)]
        return [(lab, concrete(i)) for lab, i in (("diamond,3-given-weights,original_k=2", dict(edges=D, k=3, original_k=2, source=0)),
                                                  ("diamond,2-given-weights,original_k=1,one-ignored", dict(edges=D, k=2, original_k=1, source=0, ign=[(2, 3)])),
                                                  ("wrong-number-of-weights", dict(edges=D, k=2, original_k=2, source=0, n_weights=3)))]

    fresh = lambda old: Sym(z3.Bool(core.ctx().name("H")))
    mod = [(("self", "solver", "store", "holds"), fresh)]
    keep = ("u", "v", "data", "f_u_v", "i", "slack_var", "edge_error_scaling_u_v")
    if kind == "mpe":
        loops = {2: dict(inv=inv_outer, prop=P, modifies=mod, keep=keep), 3: dict(inv=inv_inner, prop=P, on_entry=on_entry_i, modifies=mod, keep=("i", "slack_var"), bind_target_at_exit=True)}
    else:
        loops = {0: dict(inv=inv_outer, prop=P, modifies=mod, keep=keep)}
    return Unit(relpath, qualname, h, globs=dict(utils=UtilsStub), loops=split_loops(loops, P), props=[P], name="%s:%s[weight_type=%s]" % (relpath, qualname, wt.__name__), instances=instances,
                callee_contracts=[A1C], assumptions=[A3, "A2 successors(source) enumerates the edges leaving the source",
                                                      "requires: the rows added before force every edge variable into {0,1}; no safety option is on (the constructor rejects that combination, checked first in the function); "
                                                      "empty paths allowed (the constructor forces it for given weights); no path-length scaling"])


def given_weights_units():
    out = []
    for wt in (int, float):
        out.append(given_weights_unit("flowpaths/kflowdecomp.py", "kFlowDecomp._encode_flow_decomposition_with_given_weights", "C02", wt, "fd"))
        out.append(given_weights_unit("flowpaths/kleastabserrors.py", "kLeastAbsErrors._encode_leastabserrors_decomposition_with_given_weights", "C07", wt, "lae"))
        out.append(given_weights_unit("flowpaths/kminpatherror.py", "kMinPathError._encode_minpatherror_decomposition_with_given_weights", "C08", wt, "mpe"))
    return out


def all_units():
    return [u_setcover()] + dag_units() + cyc_units() + objective_units() + given_weights_units() + [u_subset_constraints()] + [u_encode_walks(False), u_encode_walks(True)] + [u_mingenset(w, m_) for w in (int, float) for m_ in (False, True)] + [u_symmetry_breaking()] + [u_min_error_flow(int), u_min_error_flow(float)] + [u_encode_paths(False), u_encode_paths(True)] + \
        [u_cover("flowpaths/kpathcover.py", "kPathCover._encode_path_cover", "subpath_constraints"), u_cover("flowpaths/kpathcovercycles.py", "kPathCoverCycles._encode_walk_cover", "subset_constraints")]
