"""Sidecar contracts for C01 (proof pieces): the DAG decoder AbstractPathModelDAG.get_solution_paths.

requires (what the encoder guarantees; checked per instance for all solver outcomes in the bounded part):
   R1  every edge variable of every layer is 0 or 1
   R2  in layer i every node other than the sink that is entered by a selected edge (or the source, if it has a selected out-edge)
       has a selected out-edge                                   (consequence of unit-flow conservation, LM3)
   R3  edges of G go forward in a topological order tau  (G is a DAG: A2)
ensures  exactly k lists; each is [] (no selected source edge) or v_0..v_m with (source,v_0), (v_j,v_j+1), (v_m,sink) selected EDGES of G,
         all v_j different from source and sink, tau strictly increasing (=> simple path)."""
import z3
from pyvc import core
from pyvc.core import Sym, lift, INT, REAL, BOOL, STR, Unsupported
from pyvc.heap import SymSeq, SymMap, SInt, Shape, STuple
from pyvc.rt import Tracked
from pyvc.unit import Unit, NoopLogger

P = "C01"
F = "flowpaths/abstractpathmodeldag.py"

EDGE = z3.Function("is_edge", INT, INT, BOOL)          # edge relation of the internal s-t DAG (nodes are integers here)
X = z3.Function("x", INT, INT, INT, INT)               # x(u, v, i): rounded solver value of the edge variable
DEG = z3.Function("outdeg", INT, INT)
SUCC = z3.Function("succ", INT, INT, INT)              # j-th successor of u
TAU = z3.Function("tau", INT, INT)                     # topological index


class SSeqVal(Shape):
    """a list of node ids as a first-class value: (length, array)"""

    def sorts(self): return [INT, z3.ArraySort(INT, INT)]

    def build(self, it):
        n, arr = next(it), next(it)
        return SymSeq(n, lambda j: Sym(arr[lift(j)]), SInt, "path")

    def leaves(self, v):
        if isinstance(v, list):
            v = _as_seq(v)
        j = z3.Int("jl")
        return [v.n, z3.Lambda([j], lift(v._at(j)))]


def _as_seq(xs):
    from pyvc.rt import concrete_to_seq
    return concrete_to_seq(list(xs))


class UtilsStub:
    logger = NoopLogger()


class G(Tracked):
    def __init__(self, source, sink):
        self.source, self.sink = source, sink

    def successors(self, v):
        v = lift(v)
        return SymSeq(DEG(v), lambda j: Sym(SUCC(v, lift(j))), SInt, "successors")


def selected(u, v, i):
    return z3.And(EDGE(u, v), X(u, v, i) == 1)


def route_ok(p, i, s, t):
    """p: SymSeq of node ids (already stripped of source/sink)"""
    a, b = z3.Ints("ra rb")
    n = p.n
    at = lambda q: lift(p._at(q))
    return z3.Or(n == 0, z3.And(
        n >= 1,
        selected(s, at(0), i), selected(at(n - 1), t, i),
        z3.ForAll([a], z3.Implies(z3.And(a >= 0, a < n - 1), selected(at(a), at(a + 1), i))),
        z3.ForAll([a], z3.Implies(z3.And(a >= 0, a < n), z3.And(at(a) != s, at(a) != t))),
        z3.ForAll([a, b], z3.Implies(z3.And(0 <= a, a < b, b < n), TAU(at(a)) < TAU(at(b))))))


def u_get_solution_paths():
    st = {}

    def requires(c, s, t, k):
        u, v, w, i, j = z3.Ints("pu pv pw pi pj")
        c.assume(s != t)
        c.assume(z3.ForAll([u, j], z3.Implies(z3.And(j >= 0, j < DEG(u)), EDGE(u, SUCC(u, j)))))                       # successors() enumerates edges
        c.assume(z3.ForAll([u, v], z3.Implies(EDGE(u, v), z3.Exists([j], z3.And(j >= 0, j < DEG(u), SUCC(u, j) == v)))))  # ... all of them
        c.assume(z3.ForAll([u], DEG(u) >= 0))
        c.assume(z3.ForAll([u, v, i], z3.Or(X(u, v, i) == 0, X(u, v, i) == 1)))                                           # R1
        c.assume(z3.ForAll([u, v, i], z3.Implies(z3.And(selected(u, v, i), v != t), z3.Exists([w], selected(v, w, i)))))  # R2
        c.assume(z3.ForAll([u, v], z3.Implies(EDGE(u, v), TAU(u) < TAU(v))))                                              # R3
        c.assume(z3.ForAll([u], z3.Not(EDGE(u, s))))                                                                      # nothing enters the source / leaves the sink
        c.assume(z3.ForAll([u], z3.Not(EDGE(t, u))))

    def inv_outer(ns, seq, done):
        paths = ns["paths"]
        d = lift(done)
        p = z3.Int("op")
        if not isinstance(paths, SymSeq):
            if len(paths):
                raise Unsupported("concrete non-empty paths list")
            return {"one-list-per-layer-so-far": d == 0}
        s, t = st["s"], st["t"]
        pth = lambda q: paths._at(q)
        return {"one-list-per-layer-so-far": paths.n == d,
                "every-stored-list-is-empty-or-a-selected-source-to-sink-route-of-G": z3.ForAll([p], z3.Implies(z3.And(p >= 0, p < d), route_ok(pth(p), p, s, t)))}

    def inv_first(ns, seq, done):
        # for out_neighbor in successors(source): first-hit search; found_path is True only after a hit (then the loop is left by break)
        fp = ns["found_path"]
        return {"no-hit-yet": (fp is False) if not isinstance(fp, Sym) else z3.Not(fp.t)}

    def at_break_first(ns, seq, j):
        st["first"] = lift(ns["out_neighbor"])

    def on_entry_while(ns, it=None):
        st["i"] = lift(ns["i"])

    def inv_while(ns, seq, done):
        path, vertex, i = ns["path"], lift(ns["vertex"]), lift(ns["i"])
        s, t = st["s"], st["t"]
        if not isinstance(path, SymSeq):
            path = _as_seq(path)
        a, b, u = z3.Ints("wa wb wu")
        n = path.n
        at = lambda q: lift(path._at(q))
        return {"path-starts-at-source-and-ends-at-the-current-vertex": z3.And(n >= 1, at(0) == s, at(n - 1) == vertex),
                "consecutive-vertices-are-selected-edges": z3.ForAll([a], z3.Implies(z3.And(a >= 0, a < n - 1), selected(at(a), at(a + 1), i))),
                "current-vertex-is-the-source-with-a-selected-out-edge-or-was-entered-by-a-selected-edge":
                    z3.Or(z3.And(n == 1, z3.Exists([u], selected(s, u, i))), z3.And(n >= 2, selected(at(n - 2), vertex, i))),
                "topological-index-strictly-increases-along-the-path": z3.ForAll([a, b], z3.Implies(z3.And(0 <= a, a < b, b < n), TAU(at(a)) < TAU(at(b)))),
                "sink-only-at-the-end": z3.ForAll([a], z3.Implies(z3.And(a >= 0, a < n - 1), at(a) != t))}

    def inv_inner(ns, seq, done):
        # for out_neighbor in successors(vertex): vertex unchanged until the hit
        v, i = st["vertex_at_entry"], lift(ns["i"])
        j = z3.Int("ji")
        return {"vertex-unchanged-before-the-hit": lift(ns["vertex"]) == v,
                "no-earlier-successor-was-selected": z3.ForAll([j], z3.Implies(z3.And(j >= 0, j < lift(done)), X(v, SUCC(v, j), i) != 1))}

    def on_entry_inner(ns, it=None):
        st["vertex_at_entry"] = lift(ns["vertex"])

    def at_exit_inner(ns, seq):
        # leaving the inner for loop WITHOUT a hit contradicts R2 (then `vertex` would not advance and the while loop would spin forever)
        c = core.ctx()
        v, i = st["vertex_at_entry"], lift(ns["i"])
        c.prove("inner-search-always-finds-a-selected-successor(under R2)", False, prop=P, kind="post")

    def h(c, f):
        class Me(Tracked):
            pass
        me = Me()
        s, t = z3.Int("source"), z3.Int("sink")
        k = z3.Int("k")
        c.assume(k >= 0)
        st.update(s=s, t=t)
        requires(c, s, t, k)
        me.G = G(Sym(s), Sym(t))
        me.k = Sym(k)
        me.external_solution_paths = None
        u, v, i = z3.Ints("mu mv mi")
        from pyvc.heap import STuple
        me.edge_vars_sol = SymMap(STuple(SInt, SInt, SInt), SInt, lambda key: z3.And(EDGE(lift(key[0]), lift(key[1])), lift(key[2]) >= 0, lift(key[2]) < k),
                                  lambda key: Sym(X(lift(key[0]), lift(key[1]), lift(key[2]))), "edge_vars_sol")
        me.edge_vars_sol.__class__ = _NonEmptyMap
        res = f(me)
        if not isinstance(res, SymSeq):
            c.prove("post:exactly-k-lists", z3.And(k == 0, len(res) == 0), prop=P)
            return
        p = z3.Int("pp")
        c.prove("post:exactly-k-lists", res.n == k, prop=P)
        c.prove("post:every-list-is-empty-or-a-selected-source-to-sink-route-of-G(simple)", z3.ForAll([p], z3.Implies(z3.And(p >= 0, p < k), route_ok(res._at(p), p, s, t))), prop=P)

    class _NonEmptyMap(SymMap):
        def __eq__(self, other):            # `self.edge_vars_sol == {}`: values were already fetched
            return False

        __hash__ = None

    def str_(x):
        return x                             # node names are strings already: str(node) is the node

    loops = {
        0: dict(inv=inv_outer, prop=P, havoc={"paths": lambda old: SymSeq.fresh("paths", SSeqVal()), "path": lambda old: SymSeq.fresh("path_h", SInt)},
                keep=("found_path", "out_neighbor", "vertex", "path")),
        1: dict(inv=inv_first, prop=None, at_break=at_break_first),
        2: dict(inv=inv_while, prop=P, on_entry=on_entry_while, havoc={"path": lambda old: SymSeq.fresh("path_w", SInt)}, keep=("out_neighbor",)),
        3: dict(inv=inv_inner, prop=None, on_entry=on_entry_inner, at_exit=at_exit_inner),
    }
    return Unit(F, "AbstractPathModelDAG.get_solution_paths", h, globs=dict(utils=UtilsStub, str=str_), loops=loops, props=[P],
                assumptions=["R1-R3 (decoder precondition): binary values, every entered non-sink node has a selected out-edge in that layer, edges go forward in a topological order",
                             "nodes are modelled as integers; str(node) = node (node names are strings)"],
                callee_contracts=["G.successors(v) enumerates exactly the out-neighbours of v", "SolverWrapper.get_values(binary_values=True) (proved in C12)"])


# ---------------------------------------------------------------------------------------------
# AbstractSourceSinkGraph._augment_with_source_sink: where routes may start and end

def u_augment():
    BASE = z3.Function("base_edge", INT, INT, BOOL)
    NODEP = z3.Function("base_node", INT, BOOL)
    NAT = z3.Function("base_node_at", INT, INT)
    INDEG0, OUTDEG0 = z3.Function("base_in_degree", INT, INT), z3.Function("base_out_degree", INT, INT)
    STARTS, ENDS = z3.Function("is_additional_start", INT, BOOL), z3.Function("is_additional_end", INT, BOOL)
    REL = z3.ArraySort(INT, z3.ArraySort(INT, BOOL))
    st = {}

    class EdgeList:
        def __init__(self, what): self.what = what
        def __add__(self, o): return EdgeList((self.what, getattr(o, "what", o)))
        def __radd__(self, o): return EdgeList((o, self.what))
        def __iter__(self): return iter(())

    class Member:
        def __init__(self, pred): self.pred = pred
        def __contains__(self, x): return core.ctx().decide(self.pred(lift(x)), "member")

    class Base:
        def __init__(self, n):
            class NodeView(SymSeq):
                def __call__(self, data=False): return "BASE_NODES"
            self.nodes = NodeView(n, lambda j: Sym(NAT(lift(j))), SInt, "base_nodes")
        def in_degree(self, u): return Sym(INDEG0(lift(u)))
        def out_degree(self, u): return Sym(OUTDEG0(lift(u)))
        def edges(self, data=False): return "BASE_EDGES"

    class Me(Tracked):
        """the graph under construction: ghost edge relation E (z3 nested array) and node set N"""
        def add_nodes_from(self, it): pass
        def add_edges_from(self, it):
            if it != "BASE_EDGES":
                raise Unsupported("add_edges_from of something else than the base edges")
            a, b = z3.Ints("ga gb")
            self.E = z3.Lambda([a], z3.Lambda([b], z3.Or(self.E[a][b], BASE(a, b))))
        def add_edge(self, u, v):
            u, v = lift(u), lift(v)
            self.E = z3.Store(self.E, u, z3.Store(self.E[u], v, z3.BoolVal(True)))
            self.touched = z3.Store(z3.Store(self.touched, u, z3.BoolVal(True)), v, z3.BoolVal(True))
        def out_edges(self, u): return EdgeList(("out", u))
        def in_edges(self, u): return EdgeList(("in", u))
        def __contains__(self, u):
            u = lift(u)
            return core.ctx().decide(z3.Or(NODEP(u), self.touched[u]), "node-in-graph")

    def inv(ns, seq, done):
        me = ns["self"]
        d = lift(done)
        j, a, b = z3.Ints("aj aa ab")
        s, t, n = st["s"], st["t"], st["n"]
        seen = lambda u: z3.Exists([j], z3.And(j >= 0, j < d, NAT(j) == u))
        return {"source-edges-so-far=exactly-the-seen-nodes-without-in-edges-or-declared-starts":
                    z3.ForAll([a], me.E[s][a] == z3.And(seen(a), z3.Or(INDEG0(a) == 0, STARTS(a)))),
                "sink-edges-so-far=exactly-the-seen-nodes-without-out-edges-or-declared-ends":
                    z3.ForAll([a], me.E[a][t] == z3.And(seen(a), z3.Or(OUTDEG0(a) == 0, ENDS(a)))),
                "base-edges-kept-and-nothing-else-added": z3.ForAll([a, b], z3.Implies(z3.And(a != s, b != t), me.E[a][b] == BASE(a, b)))}

    def h(c, f):
        me = Me()
        n = c.fresh_const("n_nodes", INT)
        s, t = z3.Ints("source sink")
        st.update(s=s, t=t, n=n)
        j, a, b = z3.Ints("hj ha hb")
        c.assume(n >= 0)
        c.assume(z3.ForAll([j], z3.Implies(z3.And(j >= 0, j < n), NODEP(NAT(j)))))
        c.assume(z3.ForAll([a], z3.Implies(NODEP(a), z3.Exists([j], z3.And(j >= 0, j < n, NAT(j) == a)))))
        c.assume(z3.ForAll([a, b], z3.Implies(BASE(a, b), z3.And(NODEP(a), NODEP(b)))))
        c.assume(z3.And(z3.Not(NODEP(s)), z3.Not(NODEP(t)), s != t))          # the synthetic names are fresh (f"source_{id(self)}")
        me.base_graph = Base(n)
        me.source, me.sink = Sym(s), Sym(t)
        me.additional_starts, me.additional_ends = Member(STARTS), Member(ENDS)
        me.E = z3.K(INT, z3.K(INT, z3.BoolVal(False)))
        me.touched = z3.K(INT, z3.BoolVal(False))
        f(me)
        c.prove("post:source-edges=exactly-(source,u)-for-u-without-incoming-edges-or-a-declared-additional-start",
                z3.ForAll([a], me.E[s][a] == z3.And(NODEP(a), z3.Or(INDEG0(a) == 0, STARTS(a)))), prop=P)
        c.prove("post:sink-edges=exactly-(u,sink)-for-u-without-outgoing-edges-or-a-declared-additional-end",
                z3.ForAll([a], me.E[a][t] == z3.And(NODEP(a), z3.Or(OUTDEG0(a) == 0, ENDS(a)))), prop=P)
        c.prove("post:all-other-edges-are-exactly-the-caller's-edges", z3.ForAll([a, b], z3.Implies(z3.And(a != s, b != t), me.E[a][b] == BASE(a, b))), prop=P)
        c.prove("post:nothing-enters-the-source-or-leaves-the-sink", z3.ForAll([a], z3.And(z3.Not(me.E[a][s]), z3.Not(me.E[t][a]))), prop=P)

    fresh = lambda old: z3.Const(core.ctx().name("E"), REL)
    fresh_t = lambda old: z3.Const(core.ctx().name("touched"), z3.ArraySort(INT, BOOL))
    loops = {0: dict(inv=inv, prop=P, modifies=[(("self", "E"), fresh), (("self", "touched"), fresh_t)])}
    return Unit("flowpaths/abstractsourcesinkgraph.py", "AbstractSourceSinkGraph._augment_with_source_sink", h, globs=dict(list=lambda x=(): x, set=lambda x=(): x), loops=loops, props=[P],
                assumptions=["A2 networkx add_edge / add_edges_from add exactly the given edges; in_degree/out_degree are those of the base graph",
                             "the synthetic source/sink names are not nodes of the caller's graph"])


def all_units():
    return [u_get_solution_paths(), u_augment()]
