"""Sidecar contracts for C01 (proof pieces): the DAG decoder AbstractPathModelDAG.get_solution_paths.

requires (what the encoder guarantees; checked per instance for all solver outcomes in the bounded part):
   R1  every edge variable of every layer is 0 or 1
   R2  in layer i every node other than the sink that is entered by a selected edge (or the source, if it has a selected out-edge)
       has a selected out-edge                                   (consequence of unit-flow conservation, LM3)
   R3  edges of G go forward in a topological order tau  (G is a DAG: A2)
ensures  exactly k lists; each is [] (no selected source edge) or v_0..v_m with (source,v_0), (v_j,v_j+1), (v_m,sink) selected EDGES of G,
         all v_j different from source and sink, tau strictly increasing (=> simple path)."""
import z3
from pyvc import core
from pyvc.core import Sym, lift, INT, REAL, BOOL, STR, Unsupported
from pyvc.heap import SymSeq, SymMap, SInt, Shape, STuple
from pyvc.rt import Tracked
from pyvc.unit import Unit, NoopLogger

P = "C01"
F = "flowpaths/abstractpathmodeldag.py"

EDGE = z3.Function("is_edge", INT, INT, BOOL)          # edge relation of the internal s-t DAG (nodes are integers here)
X = z3.Function("x", INT, INT, INT, INT)               # x(u, v, i): rounded solver value of the edge variable
DEG = z3.Function("outdeg", INT, INT)
SUCC = z3.Function("succ", INT, INT, INT)              # j-th successor of u
TAU = z3.Function("tau", INT, INT)                     # topological index


class SSeqVal(Shape):
    """a list of node ids as a first-class value: (length, array)"""

    def sorts(self): return [INT, z3.ArraySort(INT, INT)]

    def build(self, it):
        n, arr = next(it), next(it)
        return SymSeq(n, lambda j: Sym(arr[lift(j)]), SInt, "path")

    def leaves(self, v):
        if isinstance(v, list):
            v = _as_seq(v)
        j = z3.Int("jl")
        return [v.n, z3.Lambda([j], lift(v._at(j)))]


def _as_seq(xs):
    from pyvc.rt import concrete_to_seq
    return concrete_to_seq(list(xs))


class UtilsStub:
    logger = NoopLogger()


class G(Tracked):
    def __init__(self, source, sink):
        self.source, self.sink = source, sink

    def successors(self, v):
        v = lift(v)
        return SymSeq(DEG(v), lambda j: Sym(SUCC(v, lift(j))), SInt, "successors")


def selected(u, v, i):
    return z3.And(EDGE(u, v), X(u, v, i) == 1)


def route_ok(p, i, s, t):
    """p: SymSeq of node ids (already stripped of source/sink)"""
    a, b = z3.Ints("ra rb")
    n = p.n
    at = lambda q: lift(p._at(q))
    return z3.Or(n == 0, z3.And(
        n >= 1,
        selected(s, at(0), i), selected(at(n - 1), t, i),
        z3.ForAll([a], z3.Implies(z3.And(a >= 0, a < n - 1), selected(at(a), at(a + 1), i))),
        z3.ForAll([a], z3.Implies(z3.And(a >= 0, a < n), z3.And(at(a) != s, at(a) != t))),
        z3.ForAll([a, b], z3.Implies(z3.And(0 <= a, a < b, b < n), TAU(at(a)) < TAU(at(b))))))


def u_get_solution_paths():
    st = {}

    def requires(c, s, t, k):
        u, v, w, i, j = z3.Ints("pu pv pw pi pj")
        c.assume(s != t)
        c.assume(z3.ForAll([u, j], z3.Implies(z3.And(j >= 0, j < DEG(u)), EDGE(u, SUCC(u, j)))))                       # successors() enumerates edges
        c.assume(z3.ForAll([u, v], z3.Implies(EDGE(u, v), z3.Exists([j], z3.And(j >= 0, j < DEG(u), SUCC(u, j) == v)))))  # ... all of them
        c.assume(z3.ForAll([u], DEG(u) >= 0))
        c.assume(z3.ForAll([u, v, i], z3.Or(X(u, v, i) == 0, X(u, v, i) == 1)))                                           # R1
        c.assume(z3.ForAll([u, v, i], z3.Implies(z3.And(selected(u, v, i), v != t), z3.Exists([w], selected(v, w, i)))))  # R2
        c.assume(z3.ForAll([u, v], z3.Implies(EDGE(u, v), TAU(u) < TAU(v))))                                              # R3
        c.assume(z3.ForAll([u], z3.Not(EDGE(u, s))))                                                                      # nothing enters the source / leaves the sink
        c.assume(z3.ForAll([u], z3.Not(EDGE(t, u))))

    def inv_outer(ns, seq, done):
        paths = ns["paths"]
        d = lift(done)
        p = z3.Int("op")
        if not isinstance(paths, SymSeq):
            if len(paths):
                raise Unsupported("concrete non-empty paths list")
            return {"one-list-per-layer-so-far": d == 0}
        s, t = st["s"], st["t"]
        pth = lambda q: paths._at(q)
        return {"one-list-per-layer-so-far": paths.n == d,
                "every-stored-list-is-empty-or-a-selected-source-to-sink-route-of-G": z3.ForAll([p], z3.Implies(z3.And(p >= 0, p < d), route_ok(pth(p), p, s, t)))}

    def inv_first(ns, seq, done):
        # for out_neighbor in successors(source): first-hit search; found_path is True only after a hit (then the loop is left by break)
        fp = ns["found_path"]
        return {"no-hit-yet": (fp is False) if not isinstance(fp, Sym) else z3.Not(fp.t)}

    def at_break_first(ns, seq, j):
        st["first"] = lift(ns["out_neighbor"])

    def on_entry_while(ns, it=None):
        st["i"] = lift(ns["i"])

    def inv_while(ns, seq, done):
        path, vertex, i = ns["path"], lift(ns["vertex"]), lift(ns["i"])
        s, t = st["s"], st["t"]
        if not isinstance(path, SymSeq):
            path = _as_seq(path)
        a, b, u = z3.Ints("wa wb wu")
        n = path.n
        at = lambda q: lift(path._at(q))
        return {"path-starts-at-source-and-ends-at-the-current-vertex": z3.And(n >= 1, at(0) == s, at(n - 1) == vertex),
                "consecutive-vertices-are-selected-edges": z3.ForAll([a], z3.Implies(z3.And(a >= 0, a < n - 1), selected(at(a), at(a + 1), i))),
                "current-vertex-is-the-source-with-a-selected-out-edge-or-was-entered-by-a-selected-edge":
                    z3.Or(z3.And(n == 1, z3.Exists([u], selected(s, u, i))), z3.And(n >= 2, selected(at(n - 2), vertex, i))),
                "topological-index-strictly-increases-along-the-path": z3.ForAll([a, b], z3.Implies(z3.And(0 <= a, a < b, b < n), TAU(at(a)) < TAU(at(b)))),
                "sink-only-at-the-end": z3.ForAll([a], z3.Implies(z3.And(a >= 0, a < n - 1), at(a) != t))}

    def inv_inner(ns, seq, done):
        # for out_neighbor in successors(vertex): vertex unchanged until the hit
        v, i = st["vertex_at_entry"], lift(ns["i"])
        j = z3.Int("ji")
        return {"vertex-unchanged-before-the-hit": lift(ns["vertex"]) == v,
                "no-earlier-successor-was-selected": z3.ForAll([j], z3.Implies(z3.And(j >= 0, j < lift(done)), X(v, SUCC(v, j), i) != 1))}

    def on_entry_inner(ns, it=None):
        st["vertex_at_entry"] = lift(ns["vertex"])

    def at_exit_inner(ns, seq):
        # leaving the inner for loop WITHOUT a hit contradicts R2 (then `vertex` would not advance and the while loop would spin forever)
        c = core.ctx()
        v, i = st["vertex_at_entry"], lift(ns["i"])
        c.prove("inner-search-always-finds-a-selected-successor(under R2)", False, prop=P, kind="post")

    def h(c, f):
        class Me(Tracked):
            pass
        me = Me()
        s, t = z3.Int("source"), z3.Int("sink")
        k = z3.Int("k")
        c.assume(k >= 0)
        st.update(s=s, t=t)
        requires(c, s, t, k)
        me.G = G(Sym(s), Sym(t))
        me.k = Sym(k)
        me.external_solution_paths = None
        u, v, i = z3.Ints("mu mv mi")
        from pyvc.heap import STuple
        me.edge_vars_sol = SymMap(STuple(SInt, SInt, SInt), SInt, lambda key: z3.And(EDGE(lift(key[0]), lift(key[1])), lift(key[2]) >= 0, lift(key[2]) < k),
                                  lambda key: Sym(X(lift(key[0]), lift(key[1]), lift(key[2]))), "edge_vars_sol")
        me.edge_vars_sol.__class__ = _NonEmptyMap
        res = f(me)
        if not isinstance(res, SymSeq):
            c.prove("post:exactly-k-lists", z3.And(k == 0, len(res) == 0), prop=P)
            return
        p = z3.Int("pp")
        c.prove("post:exactly-k-lists", res.n == k, prop=P)
        c.prove("post:every-list-is-empty-or-a-selected-source-to-sink-route-of-G(simple)", z3.ForAll([p], z3.Implies(z3.And(p >= 0, p < k), route_ok(res._at(p), p, s, t))), prop=P)

    class _NonEmptyMap(SymMap):
        def __eq__(self, other):            # `self.edge_vars_sol == {}`: values were already fetched
            return False

        __hash__ = None

    def str_(x):
        return x                             # node names are strings already: str(node) is the node

    loops = {
        0: dict(inv=inv_outer, prop=P, havoc={"paths": lambda old: SymSeq.fresh("paths", SSeqVal()), "path": lambda old: SymSeq.fresh("path_h", SInt)},
                keep=("found_path", "out_neighbor", "vertex", "path")),
        1: dict(inv=inv_first, prop=None, at_break=at_break_first),
        2: dict(inv=inv_while, prop=P, on_entry=on_entry_while, havoc={"path": lambda old: SymSeq.fresh("path_w", SInt)}, keep=("out_neighbor",)),
        3: dict(inv=inv_inner, prop=None, on_entry=on_entry_inner, at_exit=at_exit_inner),
    }
    return Unit(F, "AbstractPathModelDAG.get_solution_paths", h, globs=dict(utils=UtilsStub, str=str_), loops=loops, props=[P],
                assumptions=["R1-R3 (decoder precondition): binary values, every entered non-sink node has a selected out-edge in that layer, edges go forward in a topological order",
                             "nodes are modelled as integers; str(node) = node (node names are strings)"],
                callee_contracts=["G.successors(v) enumerates exactly the out-neighbours of v", "SolverWrapper.get_values(binary_values=True) (proved in C12)"])


def all_units():
    return [u_get_solution_paths()]
