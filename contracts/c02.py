"""Sidecar contracts for C02 (proof pieces): get_solution of the flow-decomposition k-models returns one weight per route, of the requested
numeric type, read from the solver's weight variables (rounded to the nearest integer for int, the value itself for float)."""
import z3
from pyvc import core
from pyvc.core import Sym, lift, INT, REAL, BOOL, Unsupported
from pyvc.heap import SymSeq, SymMap, SInt, SReal
from pyvc.rt import Tracked, ROUND
from pyvc.unit import Unit, NoopLogger

P = "C02"


class UtilsStub:
    logger = NoopLogger()


def _unit(relpath, cls, route_key, decoder, P=P, second=None):
    """second: name of a second per-route value list the getter rounds the same way ("slacks" of the k-MPE models), read through a second get_values call"""
    def mk(wt):
        def h(c, f):
            class Me(Tracked):
                pass
            me = Me()
            k = c.fresh_const("k", INT)
            c.assume(k >= 1)
            W = z3.Function("weight_value", INT, REAL)
            S2 = z3.Function("second_value", INT, REAL)
            me.k = Sym(k)
            me._solution = None
            me.check_is_solved = lambda: None
            me.solution_weights_superset = None
            from pyvc.rt import BUILTINS
            me.weight_type = BUILTINS[wt.__name__]      # the function's globals bind int/float to the proxy-aware versions: use the same objects
            me.flow_attr_origin = "edge"
            me.path_weights_vars = "PWV"
            me.path_slacks_vars = "PSV"
            me.edge_errors_vars = "EEV"
            me.edge_indexes_basic = []            # the per-edge error loop runs over no element here: its rounding is the objective contracts' business (C07)
            me.path_length_factors = []
            me.path_weights_sol = None
            routes = SymSeq.fresh("routes", SInt, n=k)
            setattr(me, decoder, lambda: routes)
            me._remove_empty_paths = lambda s: s
            me._remove_empty_walks = lambda s: s

            class Solver:
                def get_values(self, vs, **kw):
                    if vs == "EEV":
                        return {}
                    fn = W if vs == "PWV" else S2
                    return SymMap(SInt, SReal, lambda key: z3.And(lift(key) >= 0, lift(key) < k), lambda key: Sym(fn(lift(key))), "weights_sol" if vs == "PWV" else "second_sol")
            me.solver = Solver()
            sol = f(me, False)
            ws = sol["weights"]
            ws = ws if isinstance(ws, SymSeq) else ws.to_seq()
            j = z3.Int("jw")
            guard = z3.And(j >= 0, j < k)
            with c.quantified(guard):
                wj = lift(ws._at(j))
            c.prove("post:one-weight-per-route", z3.And(ws.n == k, lift(sol[route_key].length()) == k), prop=P)
            if wt is int:
                c.prove("post:int-weights-are-integers-nearest-to-the-solver-value", z3.BoolVal(wj.sort() == INT), prop=P)
                c.prove("post:int-weights-within-one-half-of-the-solver-value", z3.Implies(guard, z3.And(z3.ToReal(wj) - W(j) <= z3.RealVal("1/2"), W(j) - z3.ToReal(wj) <= z3.RealVal("1/2"))), prop=P)      # j is an arbitrary (Skolem) index
            else:
                c.prove("post:float-weights-are-the-solver-values", z3.And(z3.BoolVal(wj.sort() == REAL), z3.Implies(guard, wj == W(j))), prop=P)
            if second:
                ss = sol[second]
                ss = ss if isinstance(ss, SymSeq) else ss.to_seq()
                with c.quantified(guard):
                    sj = lift(ss._at(j))
                c.prove("post:one-%s-entry-per-route" % second, ss.n == k, prop=P)
                if wt is int:
                    c.prove("post:int-%s-within-one-half-of-the-solver-value" % second, z3.And(z3.BoolVal(sj.sort() == INT), z3.Implies(guard, z3.And(z3.ToReal(sj) - S2(j) <= z3.RealVal("1/2"), S2(j) - z3.ToReal(sj) <= z3.RealVal("1/2")))), prop=P)
                else:
                    c.prove("post:float-%s-are-the-solver-values" % second, z3.And(z3.BoolVal(sj.sort() == REAL), z3.Implies(guard, sj == S2(j))), prop=P)
        return Unit(relpath, cls + ".get_solution", h, globs=dict(utils=UtilsStub), props=[P], name="%s:%s.get_solution[weight_type=%s]" % (relpath, cls, wt.__name__),
                    callee_contracts=["SolverWrapper.get_values (C12)", decoder + " (C01/C14)"], assumptions=["A3 round(x) is an integer within 1/2 of x"])
    return [mk(int), mk(float)]


def u_check_flow_conservation():
    """graphutils.check_flow_conservation: the gate of the greedy route (and of the conservation rows' applicability): True exactly
    when every node with both in- and out-edges has *equal* in- and out-sums (exact comparison, no tolerance) and no value is missing."""
    NAT = z3.Function("node_at", INT, INT)
    OD, ID = z3.Function("out_degree", INT, INT), z3.Function("in_degree", INT, INT)
    OF, IF = z3.Function("out_flow_of", INT, INT, REAL), z3.Function("in_flow_of", INT, INT, REAL)
    OM, IM = z3.Function("out_value_missing", INT, INT, BOOL), z3.Function("in_value_missing", INT, INT, BOOL)
    OS, IS = z3.Function("out_prefix_sum", INT, INT, REAL), z3.Function("in_prefix_sum", INT, INT, REAL)
    st = {}
    PC = "C02,C19"          # also the gate of C19's "a non-conserving flow is rejected"

    class Data:
        def __init__(self, F, M, v, j): self.F, self.M, self.v, self.j = F, M, lift(v), lift(j)
        def get(self, key, default=None):
            if core.ctx().decide(self.M(self.v, self.j), "value-missing"):
                return default
            return Sym(self.F(self.v, self.j))
        def __getitem__(self, key):
            core.ctx().prove("pre:data[flow_attr]-only-where-the-value-exists", z3.Not(self.M(self.v, self.j)), kind="pre")
            return Sym(self.F(self.v, self.j))

    def interior(v): return z3.And(OD(v) != 0, ID(v) != 0)
    def balanced(v):
        i = z3.Int("bi")
        return z3.And(z3.ForAll([i], z3.Implies(z3.And(i >= 0, i < OD(v)), z3.Not(OM(v, i)))),
                      z3.ForAll([i], z3.Implies(z3.And(i >= 0, i < ID(v)), z3.Not(IM(v, i)))), OS(v, OD(v)) == IS(v, ID(v)))

    def inv_outer(ns, seq, done):
        j = z3.Int("oj")
        return {"every-interior-node-so-far-is-exactly-balanced": z3.ForAll([j], z3.Implies(z3.And(j >= 0, j < lift(done), interior(NAT(j))), balanced(NAT(j))))}

    def inv_inner(var, S, M):
        def inv(ns, seq, done):
            v, i = lift(ns["v"]), z3.Int("ii")
            return {"%s=prefix-sum-of-the-values-seen" % var: lift(ns[var]) == S(v, lift(done)),
                    "no-missing-value-so-far": z3.ForAll([i], z3.Implies(z3.And(i >= 0, i < lift(done)), z3.Not(M(v, i))))}
        return inv

    def h(c, f):
        n = c.fresh_const("n_nodes", INT)
        c.assume(n >= 0)
        v, i = z3.Ints("hv hi")
        for S, F, D in ((OS, OF, OD), (IS, IF, ID)):
            c.assume(z3.ForAll([v], S(v, 0) == 0))
            c.assume(z3.ForAll([v, i], z3.Implies(z3.And(i >= 0, i < D(v)), S(v, i + 1) == S(v, i) + F(v, i))))
            c.assume(z3.ForAll([v], D(v) >= 0))

        class G:
            def nodes(self): return SymSeq(n, lambda j: Sym(NAT(lift(j))), SInt, "nodes")
            def out_degree(self, u): return Sym(OD(lift(u)))
            def in_degree(self, u): return Sym(ID(lift(u)))
            def out_edges(self, u, data=False):
                return SymSeq(OD(lift(u)), lambda j: (u, Sym(core.ctx().fresh_const("head", INT)), Data(OF, OM, u, j)), None, "out_edges")
            def in_edges(self, u, data=False):
                return SymSeq(ID(lift(u)), lambda j: (Sym(core.ctx().fresh_const("tail", INT)), u, Data(IF, IM, u, j)), None, "in_edges")
        r = f(G(), "flow")
        j = z3.Int("pj")
        if r is True:
            c.prove("post:True-only-if-every-interior-node-has-exactly-equal-in-and-out-sums-and-no-value-is-missing",
                    z3.ForAll([j], z3.Implies(z3.And(j >= 0, j < n, interior(NAT(j))), balanced(NAT(j)))), prop=PC)
        elif r is False:
            c.prove("post:False-only-if-some-interior-node-is-unbalanced-or-lacks-a-value",
                    z3.Exists([j], z3.And(j >= 0, j < n, interior(NAT(j)), z3.Not(balanced(NAT(j))))), prop=PC)
        else:
            c.prove("post:result-is-a-bool", z3.BoolVal(False), prop=PC)

    hv = lambda nm: (lambda old: Sym(core.ctx().fresh_const(nm, REAL)))
    loops = {0: dict(inv=inv_outer, prop=PC),
             1: dict(inv=inv_inner("out_flow", OS, OM), prop=PC, havoc={"out_flow": hv("out_flow")}, keep=("x", "y", "data")),
             2: dict(inv=inv_inner("in_flow", IS, IM), prop=PC, havoc={"in_flow": hv("in_flow")}, keep=("x", "y", "data"))}
    from vf.replay import replay_flow_conservation
    return Unit("flowpaths/utils/graphutils.py", "check_flow_conservation", h, globs=dict(utils=UtilsStub), loops=loops, props=[P, "C19"], replay=replay_flow_conservation,
                assumptions=["A2 networkx out_edges/in_edges enumerate exactly the incident edges; degrees are their counts",
                             "edge values are treated as mathematical reals (float rounding of the sums is outside the encoding)"])


def error_model_units():
    """the same getter contract for the k-LAE / k-MPE models (weights; slacks for k-MPE)"""
    out = []
    for rel, cls, rk, dec, prop, second in (("flowpaths/kleastabserrors.py", "kLeastAbsErrors", "paths", "get_solution_paths", "C07", None),
                                            ("flowpaths/kleastabserrorscycles.py", "kLeastAbsErrorsCycles", "walks", "get_solution_walks", "C07", None),
                                            ("flowpaths/kminpatherror.py", "kMinPathError", "paths", "get_solution_paths", "C08", "slacks"),
                                            ("flowpaths/kminpatherrorcycles.py", "kMinPathErrorCycles", "walks", "get_solution_walks", "C08", "slacks")):
        for u in _unit(rel, cls, rk, dec, P=prop, second=second):
            u.props = [prop]
            out.append(u)
    return out


def all_units():
    return u_is_valid_solution() + u_is_valid_solution("flowpaths/kflowdecompcycles.py", "kFlowDecompCycles", "walks", ("weight_from_walks", "num_edge_walks_on_edges"), True) + [u_check_flow_conservation()] + _unit("flowpaths/kflowdecomp.py", "kFlowDecomp", "paths", "get_solution_paths") + \
        _unit("flowpaths/kflowdecompcycles.py", "kFlowDecompCycles", "walks", "get_solution_walks")


def u_is_valid_solution(relpath="flowpaths/kflowdecomp.py", cls="kFlowDecomp", route_key="paths", names=("flow_from_paths", "num_paths_on_edges"), floor1=False):
    """kFlowDecomp.is_valid_solution on a cached solution of TWO routes of arbitrary length (the loops over the routes run natively, the loops over a route's edges and
    over the graph's edges are cut): it answers True exactly when every non-ignored edge that carries a value differs from the summed weights of the routes through it
    by at most tolerance x (number of traversals) - the tolerance form of C02's "explains every non-ignored edge's flow".  ValueError exactly when no solution is cached."""
    from pyvc.heap import STuple
    ESH = STuple(SInt, SInt)
    st = {}
    PNODE = z3.Function("route_node", INT, INT, INT)                   # (route, position)
    TH = z3.Function("weight_through_edge_by_the_first_edges_of_route", INT, INT, INT, INT, REAL)      # (route, tail, head, number of route edges counted)
    CN = z3.Function("traversals_of_edge_among_the_first_edges_of_route", INT, INT, INT, INT, INT)
    EU, EV, FL = z3.Function("edge_tail", INT, INT), z3.Function("edge_head", INT, INT), z3.Function("edge_value", INT, REAL)
    HASF, IGN, ISE = z3.Function("edge_has_a_value", INT, BOOL), z3.Function("edge_is_ignored", INT, INT, BOOL), z3.Function("is_edge", INT, INT, BOOL)
    TOL = z3.RealVal("1/1000")
    NF, NN = names

    class PairMap:
        def __init__(self, fn, dom): self.fn, self.dom = fn, dom
        def __getitem__(self, k):
            a, b = lift(k[0]), lift(k[1])
            c = core.ctx()
            c.prove("pre:dict-read-only-for-an-edge-of-the-graph", z3.Implies(z3.And(*c.qguards), self.dom(a, b)) if c.qguards else self.dom(a, b), kind="pre")
            return Sym(self.fn(a, b))
        def __setitem__(self, k, v):
            a, b, v, of = lift(k[0]), lift(k[1]), lift(v), self.fn
            v = z3.ToReal(v) if v.sort() == INT and self.real else v
            self.fn = lambda x, y: z3.If(z3.And(x == a, y == b), v, of(x, y))
        @classmethod
        def fresh(cls, name, real):
            c = core.ctx()
            f = z3.Function(c.name(name), INT, INT, REAL if real else INT)
            m = cls(lambda x, y: f(x, y), lambda x, y: ISE(x, y))
            m.real = real
            return m

    def dictcomp(fn, it, flt):
        which = st.setdefault("ndc", 0)
        st["ndc"] = which + 1
        real = which == 0                                   # first comprehension: flow_from_paths (reals), second: num_paths_on_edges (ints)
        zero = z3.RealVal(0) if real else z3.IntVal(0)
        m = PairMap(lambda x, y: zero, lambda x, y: ISE(x, y))
        m.real = real
        return m

    def tot(a, b): return TH(0, a, b, st["len"][0]) + TH(1, a, b, st["len"][1])
    def cnt(a, b): return CN(0, a, b, st["len"][0]) + CN(1, a, b, st["len"][1])
    def counted(j): return z3.And(HASF(j), z3.Not(IGN(EU(j), EV(j))))
    def within(j):
        d = tot(EU(j), EV(j)) - FL(j)
        n = cnt(EU(j), EV(j))
        if floor1:                                          # the walk model allows the tolerance once even on an edge no walk traverses
            n = z3.If(n >= 1, n, z3.IntVal(1))
        return z3.And(d <= TOL * z3.ToReal(n), -d <= TOL * z3.ToReal(n))

    def enter_route(ns, it=None):
        if not isinstance(ns.get(NF), PairMap):
            return                                   # concrete instance: the dicts are real dicts
        st["r"] = st["route_no"]
        st["route_no"] += 1
        st["f0"], st["n0"] = ns[NF].fn, ns[NN].fn

    def inv_route(ns, seq, done):
        r, d = st["r"], lift(done)
        a, b = z3.Ints("ra rb")
        return {"after-the-first-edges-of-the-route:-flow_from_paths-grew-by-the-route's-weight-per-traversal,-num_paths_on_edges-by-one-per-traversal":
                z3.ForAll([a, b], z3.And(ns[NF].fn(a, b) == st["f0"](a, b) + TH(r, a, b, d), ns[NN].fn(a, b) == st["n0"](a, b) + CN(r, a, b, d)))}

    def inv_edges(ns, seq, done):
        j = z3.Int("ej")
        return {"every-counted-edge-seen-so-far-is-within-tolerance": z3.ForAll([j], z3.Implies(z3.And(j >= 0, j < lift(done), counted(j)), within(j)))}

    def h(c, f):
        st.clear()
        st.update(route_no=0, ndc=0)
        nE = c.fresh_const("n_edges", INT)
        lens = [c.fresh_const("route_%d_edges" % r, INT) for r in (0, 1)]
        ws = [c.fresh_const("weight_%d" % r, REAL) for r in (0, 1)]
        st["len"] = lens
        a, b, q, j, r_ = z3.Ints("ha hb hq hj hr")
        c.assume(z3.And(nE >= 0, lens[0] >= 0, lens[1] >= 0))
        for r in (0, 1):                                    # definitions of the ghost sums; route edges are edges of the graph (requires: the routes are routes of G)
            c.assume(z3.ForAll([a, b], z3.And(TH(r, a, b, 0) == 0, CN(r, a, b, 0) == 0)))
            hit = z3.And(PNODE(r, q) == a, PNODE(r, q + 1) == b)
            c.assume(z3.ForAll([a, b, q], z3.Implies(q >= 0, z3.And(TH(r, a, b, q + 1) == TH(r, a, b, q) + z3.If(hit, ws[r], z3.RealVal(0)),
                                                                      CN(r, a, b, q + 1) == CN(r, a, b, q) + z3.If(hit, 1, 0)))))
            c.assume(z3.ForAll([q], z3.Implies(z3.And(q >= 0, q < lens[r]), ISE(PNODE(r, q), PNODE(r, q + 1)))))
        c.assume(z3.ForAll([j], z3.Implies(z3.And(j >= 0, j < nE), ISE(EU(j), EV(j)))))

        class Data:
            def __init__(self, j): self.j = lift(j)
            def sym_contains(self, k): return Sym(HASF(self.j))
            def __contains__(self, k): return bool(self.sym_contains(k))
            def __getitem__(self, k):
                c.prove("pre:value-read-only-where-the-edge-has-one", HASF(self.j), kind="pre")
                return Sym(FL(self.j))

        class G:
            @staticmethod
            def edges(data=False):
                if data:
                    return SymSeq(nE, lambda q_: (Sym(EU(lift(q_))), Sym(EV(lift(q_))), Data(q_)), None, "edges(data)")
                return SymSeq(nE, lambda q_: (Sym(EU(lift(q_))), Sym(EV(lift(q_)))), ESH, "edges")

        class Ign:
            def sym_contains(self, e): return Sym(IGN(lift(e[0]), lift(e[1])))
            def __contains__(self, e): return bool(self.sym_contains(e))

        class Me(Tracked):
            pass
        me = Me()
        routes = [SymSeq(lens[r] + 1, (lambda r: (lambda q_: Sym(PNODE(r, lift(q_)))))(r), SInt, "route%d" % r) for r in (0, 1)]
        me._solution = {route_key: routes, "weights": [Sym(ws[0]), Sym(ws[1])]}
        me.G, me.flow_attr, me.edges_to_ignore = G, "flow", Ign()
        res = f(me)
        allok = z3.ForAll([j], z3.Implies(z3.And(j >= 0, j < nE, counted(j)), within(j)))
        if res is True:
            c.prove("post:True-only-if-every-counted-edge-is-explained-within-tolerance-x-traversals", allok, prop=P)
        elif res is False:
            c.prove("post:False-only-if-some-counted-edge-is-not-explained-within-tolerance-x-traversals", z3.Not(allok), prop=None)     # auxiliary: a stricter validator does not break C02
        else:
            c.prove("post:the-answer-is-a-bool", False, prop=P)

    class Fetched(Exception):
        pass

    def h_fetch(c, f):                                      # walk model: nothing cached -> the solution is fetched first (get_solution raises when there is none), never an answer without one
        class Me(Tracked):
            def get_solution(self):
                raise Fetched()
        me = Me()
        me._solution = None
        try:
            f(me)
            c.prove("xpost:nothing-cached:-get_solution-is-asked-before-any-answer", False, prop=P, kind="xpost")
        except Fetched:
            c.prove("xpost:nothing-cached:-get_solution-is-asked-before-any-answer", True, prop=P, kind="xpost")

    def h_none(c, f):
        class Me(Tracked):
            pass
        me = Me()
        me._solution = None
        try:
            f(me)
            c.prove("xpost:ValueError-when-no-solution-is-cached", False, prop=P, kind="xpost")
        except ValueError:
            c.prove("xpost:ValueError-when-no-solution-is-cached", True, prop=P, kind="xpost")

    # ---- concrete instances: the same extracted body on small graphs with a cached solution; expected answer computed independently
    CASES = [
        ([("s", "a", 3), ("a", "t", 3)], [["s", "a", "t"]], [3], [], True),
        ([("s", "a", 3), ("a", "t", 3)], [["s", "a", "t"]], [2], [], False),
        ([("s", "a", 2), ("s", "b", 1), ("a", "t", 2), ("b", "t", 1)], [["s", "a", "t"], ["s", "b", "t"]], [2, 1], [], True),
        ([("s", "a", 2), ("s", "b", 1), ("a", "t", 2), ("b", "t", 1)], [["s", "a", "t"], ["s", "b", "t"]], [2, 2], [("s", "b"), ("b", "t")], True),
        ([("s", "a", 2), ("s", "b", 1), ("a", "t", 2), ("b", "t", 1)], [["s", "a", "t"], ["s", "b", "t"]], [2, 2], [("s", "b")], False),
        ([("s", "a", 5), ("a", "b", 3), ("a", "c", 2), ("b", "t", 3), ("c", "t", 2)], [["s", "a", "b", "t"], ["s", "a", "c", "t"]], [3.0005, 2.0], [], True),
        ([("s", "a", 5), ("a", "b", 3), ("a", "c", 2), ("b", "t", 3), ("c", "t", 2)], [["s", "a", "b", "t"], ["s", "a", "c", "t"]], [3.0025, 2.0], [], False),
        ([("s", "a", 4), ("a", "t", 4)], [["s", "a", "t"], ["s", "a", "t"]], [1, 3], [], True),
        ([("s", "a", 3), ("a", "t", 3)], [["s", "a", "t"], ["s", "a", "t"]], [3, 3], [], False),             # twice the flow: each route alone would explain it
        ([("s", "a", 5), ("a", "b", 3), ("a", "c", 2), ("b", "t", 3), ("c", "t", 2)], [["s", "a", "b", "t"], ["s", "a", "c", "t"]], [3.0015, 2.0], [], False),   # a->b off by 0.0015 > 1 x 0.001
        ([("s", "a", 1), ("a", "b", 2), ("b", "a", 1), ("b", "t", 1)], [["s", "a", "b", "a", "b", "t"]], [1], [], True),       # an edge traversed twice by one route
        ([("s", "a", 1), ("a", "b", 2), ("b", "a", 1), ("b", "t", 1)], [["s", "a", "b", "a", "b", "t"]], [1.00075], [], True),  # a->b: off by 0.0015 <= 2 x 0.001 (tolerance per traversal)
        ([("s", "a", 2), ("a", "t", 2), ("s", "t", 0.0005)], [["s", "a", "t"]], [2], [], floor1),           # an edge no route traverses: tolerance x max(1, 0) in the walk model only
    ]

    def instances():
        out = []
        for E, routes, ws, ign, want in CASES:
            def hc(c, f, E=E, routes=routes, ws=ws, ign=ign, want=want):
                import networkx
                g = networkx.DiGraph()
                for a, b, w in E:
                    g.add_edge(a, b, flow=w)

                class Me(Tracked):
                    pass
                me = Me()
                me._solution = {route_key: [list(r) for r in routes], "weights": list(ws)}
                me.G, me.flow_attr, me.edges_to_ignore = g, "flow", set(ign)
                got = f(me)
                c.prove("instance:the-answer-is-%s" % want, z3.BoolVal(got is want), prop=(None if want else P), info=dict(got=str(got)))   # accepting an unexplained edge is the property; refusing an explained one is auxiliary
            out.append(("edges %s routes %s weights %s ignored %s" % (E, routes, ws, ign), hc))
        return out

    fmr = lambda old: PairMap.fresh(NF, True)
    fmi = lambda old: PairMap.fresh(NN, False)
    # loops in source order: 0 = over (weight, route) [native: concrete zip], 1 = over the edges of a route [cut], 2 = over the graph's edges [cut]
    loops = {1: dict(inv=inv_route, prop=P, on_entry=enter_route, havoc={NF: fmr, NN: fmi}),
             2: dict(inv=inv_edges, prop=P, keep=("u", "v", "data"))}
    g = dict(utils=UtilsStub)
    return [Unit(relpath, cls + ".is_valid_solution", h, globs=g, loops=loops, props=[P], literals=dict(dictcomp=dictcomp), instances=instances,
                 name="%s:%s.is_valid_solution[two routes]" % (relpath, cls),
                 assumptions=["requires: the cached routes are routes of the graph (consecutive nodes are edges); default tolerance 0.001",
                              "two routes of arbitrary length (the number of routes is fixed in this contract; the loops over a route and over the graph's edges are unbounded)"],
                 abstractions=["the two dicts are functions on the edges of the graph; the weight / number of traversals through an edge are ghost prefix sums along each route"]),
            Unit(relpath, cls + ".is_valid_solution", h_fetch if floor1 else h_none, globs=g, props=[P], name="%s:%s.is_valid_solution[no solution]" % (relpath, cls))]
