"""Sidecar contracts for C02 (proof pieces): get_solution of the flow-decomposition k-models returns one weight per route, of the requested
numeric type, read from the solver's weight variables (rounded to the nearest integer for int, the value itself for float)."""
import z3
from pyvc import core
from pyvc.core import Sym, lift, INT, REAL, BOOL, Unsupported
from pyvc.heap import SymSeq, SymMap, SInt, SReal
from pyvc.rt import Tracked, ROUND
from pyvc.unit import Unit, NoopLogger

P = "C02"


class UtilsStub:
    logger = NoopLogger()


def _unit(relpath, cls, route_key, decoder, P=P, second=None):
    """second: name of a second per-route value list the getter rounds the same way ("slacks" of the k-MPE models), read through a second get_values call"""
    def mk(wt):
        def h(c, f):
            class Me(Tracked):
                pass
            me = Me()
            k = c.fresh_const("k", INT)
            c.assume(k >= 1)
            W = z3.Function("weight_value", INT, REAL)
            S2 = z3.Function("second_value", INT, REAL)
            me.k = Sym(k)
            me._solution = None
            me.check_is_solved = lambda: None
            me.solution_weights_superset = None
            from pyvc.rt import BUILTINS
            me.weight_type = BUILTINS[wt.__name__]      # the function's globals bind int/float to the proxy-aware versions: use the same objects
            me.flow_attr_origin = "edge"
            me.path_weights_vars = "PWV"
            me.path_slacks_vars = "PSV"
            me.edge_errors_vars = "EEV"
            me.edge_indexes_basic = []            # the per-edge error loop runs over no element here: its rounding is the objective contracts' business (C07)
            me.path_length_factors = []
            me.path_weights_sol = None
            routes = SymSeq.fresh("routes", SInt, n=k)
            setattr(me, decoder, lambda: routes)
            me._remove_empty_paths = lambda s: s
            me._remove_empty_walks = lambda s: s

            class Solver:
                def get_values(self, vs, **kw):
                    if vs == "EEV":
                        return {}
                    fn = W if vs == "PWV" else S2
                    return SymMap(SInt, SReal, lambda key: z3.And(lift(key) >= 0, lift(key) < k), lambda key: Sym(fn(lift(key))), "weights_sol" if vs == "PWV" else "second_sol")
            me.solver = Solver()
            sol = f(me, False)
            ws = sol["weights"]
            ws = ws if isinstance(ws, SymSeq) else ws.to_seq()
            j = z3.Int("jw")
            guard = z3.And(j >= 0, j < k)
            with c.quantified(guard):
                wj = lift(ws._at(j))
            c.prove("post:one-weight-per-route", z3.And(ws.n == k, lift(sol[route_key].length()) == k), prop=P)
            if wt is int:
                c.prove("post:int-weights-are-integers-nearest-to-the-solver-value", z3.BoolVal(wj.sort() == INT), prop=P)
                c.prove("post:int-weights-within-one-half-of-the-solver-value", z3.Implies(guard, z3.And(z3.ToReal(wj) - W(j) <= z3.RealVal("1/2"), W(j) - z3.ToReal(wj) <= z3.RealVal("1/2"))), prop=P)      # j is an arbitrary (Skolem) index
            else:
                c.prove("post:float-weights-are-the-solver-values", z3.And(z3.BoolVal(wj.sort() == REAL), z3.Implies(guard, wj == W(j))), prop=P)
            if second:
                ss = sol[second]
                ss = ss if isinstance(ss, SymSeq) else ss.to_seq()
                with c.quantified(guard):
                    sj = lift(ss._at(j))
                c.prove("post:one-%s-entry-per-route" % second, ss.n == k, prop=P)
                if wt is int:
                    c.prove("post:int-%s-within-one-half-of-the-solver-value" % second, z3.And(z3.BoolVal(sj.sort() == INT), z3.Implies(guard, z3.And(z3.ToReal(sj) - S2(j) <= z3.RealVal("1/2"), S2(j) - z3.ToReal(sj) <= z3.RealVal("1/2")))), prop=P)
                else:
                    c.prove("post:float-%s-are-the-solver-values" % second, z3.And(z3.BoolVal(sj.sort() == REAL), z3.Implies(guard, sj == S2(j))), prop=P)
        return Unit(relpath, cls + ".get_solution", h, globs=dict(utils=UtilsStub), props=[P], name="%s:%s.get_solution[weight_type=%s]" % (relpath, cls, wt.__name__),
                    callee_contracts=["SolverWrapper.get_values (C12)", decoder + " (C01/C14)"], assumptions=["A3 round(x) is an integer within 1/2 of x"])
    return [mk(int), mk(float)]


def u_check_flow_conservation():
    """graphutils.check_flow_conservation: the gate of the greedy route (and of the conservation rows' applicability): True exactly
    when every node with both in- and out-edges has *equal* in- and out-sums (exact comparison, no tolerance) and no value is missing."""
    NAT = z3.Function("node_at", INT, INT)
    OD, ID = z3.Function("out_degree", INT, INT), z3.Function("in_degree", INT, INT)
    OF, IF = z3.Function("out_flow_of", INT, INT, REAL), z3.Function("in_flow_of", INT, INT, REAL)
    OM, IM = z3.Function("out_value_missing", INT, INT, BOOL), z3.Function("in_value_missing", INT, INT, BOOL)
    OS, IS = z3.Function("out_prefix_sum", INT, INT, REAL), z3.Function("in_prefix_sum", INT, INT, REAL)
    st = {}
    PC = "C02,C19"          # also the gate of C19's "a non-conserving flow is rejected"

    class Data:
        def __init__(self, F, M, v, j): self.F, self.M, self.v, self.j = F, M, lift(v), lift(j)
        def get(self, key, default=None):
            if core.ctx().decide(self.M(self.v, self.j), "value-missing"):
                return default
            return Sym(self.F(self.v, self.j))
        def __getitem__(self, key):
            core.ctx().prove("pre:data[flow_attr]-only-where-the-value-exists", z3.Not(self.M(self.v, self.j)), kind="pre")
            return Sym(self.F(self.v, self.j))

    def interior(v): return z3.And(OD(v) != 0, ID(v) != 0)
    def balanced(v):
        i = z3.Int("bi")
        return z3.And(z3.ForAll([i], z3.Implies(z3.And(i >= 0, i < OD(v)), z3.Not(OM(v, i)))),
                      z3.ForAll([i], z3.Implies(z3.And(i >= 0, i < ID(v)), z3.Not(IM(v, i)))), OS(v, OD(v)) == IS(v, ID(v)))

    def inv_outer(ns, seq, done):
        j = z3.Int("oj")
        return {"every-interior-node-so-far-is-exactly-balanced": z3.ForAll([j], z3.Implies(z3.And(j >= 0, j < lift(done), interior(NAT(j))), balanced(NAT(j))))}

    def inv_inner(var, S, M):
        def inv(ns, seq, done):
            v, i = lift(ns["v"]), z3.Int("ii")
            return {"%s=prefix-sum-of-the-values-seen" % var: lift(ns[var]) == S(v, lift(done)),
                    "no-missing-value-so-far": z3.ForAll([i], z3.Implies(z3.And(i >= 0, i < lift(done)), z3.Not(M(v, i))))}
        return inv

    def h(c, f):
        n = c.fresh_const("n_nodes", INT)
        c.assume(n >= 0)
        v, i = z3.Ints("hv hi")
        for S, F, D in ((OS, OF, OD), (IS, IF, ID)):
            c.assume(z3.ForAll([v], S(v, 0) == 0))
            c.assume(z3.ForAll([v, i], z3.Implies(z3.And(i >= 0, i < D(v)), S(v, i + 1) == S(v, i) + F(v, i))))
            c.assume(z3.ForAll([v], D(v) >= 0))

        class G:
            def nodes(self): return SymSeq(n, lambda j: Sym(NAT(lift(j))), SInt, "nodes")
            def out_degree(self, u): return Sym(OD(lift(u)))
            def in_degree(self, u): return Sym(ID(lift(u)))
            def out_edges(self, u, data=False):
                return SymSeq(OD(lift(u)), lambda j: (u, Sym(core.ctx().fresh_const("head", INT)), Data(OF, OM, u, j)), None, "out_edges")
            def in_edges(self, u, data=False):
                return SymSeq(ID(lift(u)), lambda j: (Sym(core.ctx().fresh_const("tail", INT)), u, Data(IF, IM, u, j)), None, "in_edges")
        r = f(G(), "flow")
        j = z3.Int("pj")
        if r is True:
            c.prove("post:True-only-if-every-interior-node-has-exactly-equal-in-and-out-sums-and-no-value-is-missing",
                    z3.ForAll([j], z3.Implies(z3.And(j >= 0, j < n, interior(NAT(j))), balanced(NAT(j)))), prop=PC)
        elif r is False:
            c.prove("post:False-only-if-some-interior-node-is-unbalanced-or-lacks-a-value",
                    z3.Exists([j], z3.And(j >= 0, j < n, interior(NAT(j)), z3.Not(balanced(NAT(j))))), prop=PC)
        else:
            c.prove("post:result-is-a-bool", z3.BoolVal(False), prop=PC)

    hv = lambda nm: (lambda old: Sym(core.ctx().fresh_const(nm, REAL)))
    loops = {0: dict(inv=inv_outer, prop=PC),
             1: dict(inv=inv_inner("out_flow", OS, OM), prop=PC, havoc={"out_flow": hv("out_flow")}, keep=("x", "y", "data")),
             2: dict(inv=inv_inner("in_flow", IS, IM), prop=PC, havoc={"in_flow": hv("in_flow")}, keep=("x", "y", "data"))}
    from vf.replay import replay_flow_conservation
    return Unit("flowpaths/utils/graphutils.py", "check_flow_conservation", h, globs=dict(utils=UtilsStub), loops=loops, props=[P, "C19"], replay=replay_flow_conservation,
                assumptions=["A2 networkx out_edges/in_edges enumerate exactly the incident edges; degrees are their counts",
                             "edge values are treated as mathematical reals (float rounding of the sums is outside the encoding)"])


def error_model_units():
    """the same getter contract for the k-LAE / k-MPE models (weights; slacks for k-MPE)"""
    out = []
    for rel, cls, rk, dec, prop, second in (("flowpaths/kleastabserrors.py", "kLeastAbsErrors", "paths", "get_solution_paths", "C07", None),
                                            ("flowpaths/kleastabserrorscycles.py", "kLeastAbsErrorsCycles", "walks", "get_solution_walks", "C07", None),
                                            ("flowpaths/kminpatherror.py", "kMinPathError", "paths", "get_solution_paths", "C08", "slacks"),
                                            ("flowpaths/kminpatherrorcycles.py", "kMinPathErrorCycles", "walks", "get_solution_walks", "C08", "slacks")):
        for u in _unit(rel, cls, rk, dec, P=prop, second=second):
            u.props = [prop]
            out.append(u)
    return out


def all_units():
    return [u_check_flow_conservation()] + _unit("flowpaths/kflowdecomp.py", "kFlowDecomp", "paths", "get_solution_paths") + \
        _unit("flowpaths/kflowdecompcycles.py", "kFlowDecompCycles", "walks", "get_solution_walks")
