"""Sidecar contracts for C02 (proof pieces): get_solution of the flow-decomposition k-models returns one weight per route, of the requested
numeric type, read from the solver's weight variables (rounded to the nearest integer for int, the value itself for float)."""
import z3
from pyvc import core
from pyvc.core import Sym, lift, INT, REAL, BOOL, Unsupported
from pyvc.heap import SymSeq, SymMap, SInt, SReal
from pyvc.rt import Tracked, ROUND
from pyvc.unit import Unit, NoopLogger

P = "C02"


class UtilsStub:
    logger = NoopLogger()


def _unit(relpath, cls, route_key, decoder):
    def mk(wt):
        def h(c, f):
            class Me(Tracked):
                pass
            me = Me()
            k = c.fresh_const("k", INT)
            c.assume(k >= 1)
            W = z3.Function("weight_value", INT, REAL)
            me.k = Sym(k)
            me._solution = None
            me.check_is_solved = lambda: None
            me.solution_weights_superset = None
            from pyvc.rt import BUILTINS
            me.weight_type = BUILTINS[wt.__name__]      # the function's globals bind int/float to the proxy-aware versions: use the same objects
            me.flow_attr_origin = "edge"
            me.path_weights_vars = "PWV"
            me.path_weights_sol = None
            routes = SymSeq.fresh("routes", SInt, n=k)
            setattr(me, decoder, lambda: routes)
            me._remove_empty_paths = lambda s: s
            me._remove_empty_walks = lambda s: s

            class Solver:
                def get_values(self, vs, **kw):
                    return SymMap(SInt, SReal, lambda key: z3.And(lift(key) >= 0, lift(key) < k), lambda key: Sym(W(lift(key))), "weights_sol")
            me.solver = Solver()
            sol = f(me, False)
            ws = sol["weights"]
            ws = ws if isinstance(ws, SymSeq) else ws.to_seq()
            j = z3.Int("jw")
            guard = z3.And(j >= 0, j < k)
            with c.quantified(guard):
                wj = lift(ws._at(j))
            c.prove("post:one-weight-per-route", z3.And(ws.n == k, lift(sol[route_key].length()) == k), prop=P)
            if wt is int:
                c.prove("post:int-weights-are-integers-nearest-to-the-solver-value", z3.BoolVal(wj.sort() == INT), prop=P)
                c.prove("post:int-weights-within-one-half-of-the-solver-value", z3.Implies(guard, z3.And(z3.ToReal(wj) - W(j) <= z3.RealVal("1/2"), W(j) - z3.ToReal(wj) <= z3.RealVal("1/2"))), prop=P)      # j is an arbitrary (Skolem) index
            else:
                c.prove("post:float-weights-are-the-solver-values", z3.And(z3.BoolVal(wj.sort() == REAL), z3.Implies(guard, wj == W(j))), prop=P)
        return Unit(relpath, cls + ".get_solution", h, globs=dict(utils=UtilsStub), props=[P], name="%s:%s.get_solution[weight_type=%s]" % (relpath, cls, wt.__name__),
                    callee_contracts=["SolverWrapper.get_values (C12)", decoder + " (C01/C14)"], assumptions=["A3 round(x) is an integer within 1/2 of x"])
    return [mk(int), mk(float)]


def all_units():
    return _unit("flowpaths/kflowdecomp.py", "kFlowDecomp", "paths", "get_solution_paths") + \
        _unit("flowpaths/kflowdecompcycles.py", "kFlowDecompCycles", "walks", "get_solution_walks")
