"""Sidecar contracts for C17 (proof pieces): greedy bottleneck peeling.

graphutils.max_bottleneck_path(G, flow_attr)     the DP over a topological order and the path recovery
stDAG.decompose_using_max_bottleneck(flow_attr)  the peeling loop: CONSERVATION (no flow invented, none lost track of)

Not proved (graph arguments, left to the bounded comparison): that the DP value is the maximum over ALL paths, that peeling a conserving flow
ends with nothing left on any edge, termination of the two `while` loops."""
import z3
from pyvc import core
from pyvc.core import Sym, lift, INT, REAL, BOOL, Unsupported
from pyvc.heap import SymSeq, SInt, SReal
from pyvc.rt import Tracked
from pyvc.unit import Unit, NoopLogger

P = "C17"
GU = "flowpaths/utils/graphutils.py"
POS, TOP = z3.Function("pos_in_topological_order", INT, INT), z3.Function("node_at", INT, INT)
IND, OUTD = z3.Function("in_degree", INT, INT), z3.Function("out_degree", INT, INT)
PRED = z3.Function("predecessor", INT, INT, INT)
EDGE = z3.Function("is_edge", INT, INT, BOOL)
FLOW = z3.Function("flow", INT, INT, REAL)
INF, NINF = z3.Real("plus_infinity"), z3.Real("minus_infinity")


class FnMap:
    """a dict used as a total function on the keys that were written (reads of other keys are guarded by `pre` obligations)"""
    def __init__(self, fn, dom):
        self.fn, self.dom = fn, dom
    def __getitem__(self, k):
        if k is None:
            if not core.ctx()._feasible(z3.BoolVal(True)):
                raise core.PathAbort()                                    # this path cannot happen under the hypotheses collected so far
            core.ctx().prove("pre:dict-read-with-a-key-that-is-not-None", z3.BoolVal(False), kind="pre")      # discharged only where the path is infeasible
            raise KeyError(None)
        k = lift(k)
        c = core.ctx()
        c.prove("pre:dict-read-only-for-a-key-that-was-written", z3.Implies(z3.And(*c.qguards), self.dom(k)) if c.qguards else self.dom(k), kind="pre")
        return Sym(self.fn(k))
    def __setitem__(self, k, v):
        k, v, of, od = lift(k), lift(v), self.fn, self.dom
        if v.sort() == INT and of(z3.IntVal(0)).sort() == REAL:
            v = z3.ToReal(v)
        self.fn = lambda x: z3.If(x == k, v, of(x))
        self.dom = lambda x: z3.Or(x == k, od(x))
    @classmethod
    def empty(cls, sort):
        zero = z3.RealVal(0) if sort == REAL else z3.IntVal(0)
        return cls(lambda x: zero, lambda x: z3.BoolVal(False))
    @classmethod
    def fresh(cls, name, sort):
        c = core.ctx()
        f, d = z3.Function(c.name(name), INT, sort), z3.Function(c.name(name + ".dom"), INT, BOOL)
        return cls(lambda x: f(x), lambda x: d(x))


def _int(x):
    if isinstance(x, Sym):
        return z3.simplify(x.t).as_long()
    return int(x)


def u_max_bottleneck_path():
    st = {}

    def node(v): return z3.And(POS(v) >= 0, POS(v) < st["n"], TOP(POS(v)) == v)
    def mn(a, b): return z3.If(a <= b, a, b)

    def done_node(B, M, v):
        """what the DP has established for a processed node v"""
        j = z3.Int("dj")
        return z3.And(B.dom(v),
                      z3.Implies(IND(v) == 0, B.fn(v) == INF),
                      z3.Implies(IND(v) > 0, z3.And(
                          M.dom(v), z3.Exists([j], z3.And(j >= 0, j < IND(v), PRED(v, j) == M.fn(v))),
                          B.fn(v) == mn(B.fn(M.fn(v)), FLOW(M.fn(v), v)), B.fn(v) >= 0, B.fn(v) < INF,
                          z3.ForAll([j], z3.Implies(z3.And(j >= 0, j < IND(v)), B.fn(v) >= mn(B.fn(PRED(v, j)), FLOW(PRED(v, j), v)))))))

    def sink_state(B, mbs, d):
        x = z3.Int("sx")
        cand = lambda x: z3.And(node(x), POS(x) < d, IND(x) > 0, OUTD(x) == 0)
        if mbs is None:
            return z3.ForAll([x], z3.Not(cand(x)))
        m = lift(mbs)
        return z3.And(cand(m), z3.ForAll([x], z3.Implies(cand(x), B.fn(m) >= B.fn(x))))

    def inv_outer(ns, seq, done):
        B, M, d = ns["B"], ns["maxInNeighbor"], lift(done)
        v = z3.Int("ov")
        return {"processed-nodes:B=inf-at-sources,-else-B=min(B[maxIn],flow)-is-the-best-over-the-predecessors":
                    z3.ForAll([v], z3.Implies(z3.And(node(v), POS(v) < d), done_node(B, M, v))),
                "best-sink-so-far": sink_state(B, ns["maxBottleneckSink"], d)}

    def enter_inner(ns, it=None):
        st["B0"], st["M0"], st["v"] = (ns["B"].fn, ns["B"].dom), (ns["maxInNeighbor"].fn, ns["maxInNeighbor"].dom), lift(ns["v"])

    def inv_inner(ns, seq, done):
        B, M, e, v = ns["B"], ns["maxInNeighbor"], lift(done), st["v"]
        (b0, bd0), (m0, md0) = st["B0"], st["M0"]
        j, w = z3.Ints("nj nw")
        val = lambda q: mn(b0(PRED(v, q)), FLOW(PRED(v, q), v))
        return {"B[v]=best-over-the-predecessors-seen-so-far-(minus-infinity-before-the-first),-maxIn[v]-attains-it":
                    z3.And(B.dom(v), z3.Implies(e == 0, B.fn(v) == NINF),
                           z3.Implies(e > 0, z3.And(M.dom(v), z3.Exists([j], z3.And(j >= 0, j < e, PRED(v, j) == M.fn(v), B.fn(v) == val(j))), B.fn(v) >= 0, B.fn(v) < INF)),
                           z3.ForAll([j], z3.Implies(z3.And(j >= 0, j < e), B.fn(v) >= val(j)))),
                "other-entries-unchanged": z3.ForAll([w], z3.Implies(w != v, z3.And(B.fn(w) == b0(w), B.dom(w) == bd0(w), M.fn(w) == m0(w), M.dom(w) == md0(w))))}

    def chain(B, M, rp, m, bval):
        i, i2 = z3.Ints("ci ci2")
        at = lambda q: lift(rp._at(q))
        return z3.And(rp.n >= 1, at(0) == m,
                      z3.ForAll([i, i2], z3.Implies(z3.And(i >= 0, i < i2, i2 < rp.n), POS(at(i2)) < POS(at(i)))),
                      z3.ForAll([i], z3.Implies(z3.And(i >= 0, i < rp.n), z3.And(node(at(i)), B.dom(at(i)), B.fn(at(i)) >= bval))),
                      z3.ForAll([i], z3.Implies(z3.And(i >= 0, i < rp.n - 1), z3.And(IND(at(i)) > 0, at(i + 1) == M.fn(at(i)), POS(at(i + 1)) < POS(at(i)),
                                                                                     EDGE(at(i + 1), at(i)), FLOW(at(i + 1), at(i)) >= bval))))

    def inv_recover(ns, seq, done):
        B, M, rp = ns["B"], ns["maxInNeighbor"], ns["reverse_path"]
        m = lift(ns["maxBottleneckSink"])
        return {"reverse-path-follows-maxIn-from-the-sink;-every-edge-on-it-carries-at-least-the-sink's-value": chain(B, M, rp, m, B.fn(m))}

    def h(c, f):
        n = c.fresh_const("n_nodes", INT)
        st["n"] = n
        v, j, u = z3.Ints("hv hj hu")
        c.assume(n >= 1)
        c.assume(z3.ForAll([j], z3.Implies(z3.And(j >= 0, j < n), POS(TOP(j)) == j)))                                                  # A2: the order lists each node once
        c.assume(z3.ForAll([v], IND(v) >= 0))
        c.assume(z3.ForAll([v, j], z3.Implies(z3.And(node(v), j >= 0, j < IND(v)),
                                              z3.And(node(PRED(v, j)), POS(PRED(v, j)) < POS(v), EDGE(PRED(v, j), v)))))              # predecessors come earlier and are edges
        c.assume(z3.ForAll([u, v], z3.And(FLOW(u, v) >= 0, FLOW(u, v) < INF)))                                                          # requires: non-negative, finite flow values
        c.assume(NINF < 0)
        c.assume(z3.Exists([v], z3.And(node(v), IND(v) > 0, OUTD(v) == 0)))                                                             # requires: the DAG has an edge (hence a sink with an in-edge)

        class EdgeView:
            def __getitem__(self, key):
                a, b = lift(key[0]), lift(key[1])
                class Attr:
                    def __getitem__(self, attr): return Sym(FLOW(a, b))
                return Attr()

        class G:
            edges = EdgeView()
            @staticmethod
            def in_degree(x): return Sym(IND(lift(x)))
            @staticmethod
            def out_degree(x): return Sym(OUTD(lift(x)))
            @staticmethod
            def predecessors(x):
                x = lift(x)
                return SymSeq(IND(x), lambda q: Sym(PRED(x, lift(q))), SInt, "predecessors")
        st["dicts"] = iter(["B", "maxInNeighbor"])
        try:
            bott, path = f(G, "flow")
        except KeyError:
            return              # the failed `pre` obligation above is the report
        if path is None:
            c.prove("post:no-path-is-reported-together-with-no-bottleneck", z3.BoolVal(bott is None), prop=P)
            m = st.get("mbs")
            c.prove("post:(None,None)-only-if-the-best-value-found-at-a-sink-is-0", z3.BoolVal(m is not None) if m is None else st["Bfin"].fn(lift(m)) == 0, prop=P)
            return
        p = path if isinstance(path, SymSeq) else None
        c.prove("post:the-path-is-a-list", z3.BoolVal(p is not None), prop=P)
        if p is None:
            return
        i, i2 = z3.Ints("pi pi2")
        at = lambda q: lift(p._at(q))
        b = lift(bott)
        c.prove("post:path-runs-from-a-node-without-in-edges-to-a-node-without-out-edges-along-edges-of-G",
                z3.And(p.n >= 1, IND(at(0)) == 0, OUTD(at(p.n - 1)) == 0, z3.ForAll([i], z3.Implies(z3.And(i >= 0, i < p.n - 1), EDGE(at(i), at(i + 1))))), prop=P)
        c.prove("post:every-edge-of-the-path-carries-at-least-the-reported-bottleneck,-which-is-positive",
                z3.And(b > 0, z3.ForAll([i], z3.Implies(z3.And(i >= 0, i < p.n - 1), FLOW(at(i), at(i + 1)) >= b))), prop=P)
        c.prove("post:the-path-visits-no-node-twice",
                z3.ForAll([i, i2], z3.Implies(z3.And(i >= 0, i < i2, i2 < p.n), at(i) != at(i2))), prop=P)

    def dict_():
        which = next(st["dicts"])
        return FnMap.empty(REAL if which == "B" else INT)

    def float_(x):
        if x == "inf":
            return Sym(INF)
        if x == "-inf":
            return Sym(NINF)
        from pyvc.rt import BUILTINS
        return BUILTINS["float"](x)

    class NX:
        @staticmethod
        def topological_sort(G):
            if hasattr(G, "topo"):
                return list(G.topo)                  # concrete instance
            return SymSeq(st["n"], lambda q: Sym(TOP(lift(q))), SInt, "topological_order")

    def rec_exit(ns, it=None):
        pass

    def inv_outer_rec(ns, seq, done):
        st["mbs"], st["Bfin"] = ns["maxBottleneckSink"], ns["B"]
        return inv_outer(ns, seq, done)

    hb = lambda old: FnMap.fresh("B", REAL)
    hm = lambda old: FnMap.fresh("maxInNeighbor", INT)
    loops = {0: dict(inv=inv_outer_rec, prop=P, havoc={"B": hb, "maxInNeighbor": hm, "maxBottleneckSink": lambda old: st["pick"]()}, keep=("u", "uBottleneck")),
             1: dict(inv=inv_inner, prop=P, on_entry=enter_inner, havoc={"B": hb, "maxInNeighbor": hm}, keep=("uBottleneck",)),
             2: dict(inv=inv_recover, prop=P, havoc={"reverse_path": lambda old: SymSeq.fresh("reverse_path", SInt)})}

    # ---- concrete instances: the same extracted body, run natively on small DAGs; here the MAXIMUM over all paths is decided by enumeration
    INSTANCES = [
        (3, [(0, 1, 2), (1, 2, 3)]), (3, [(0, 1, 2), (1, 2, 3), (0, 2, 1)]), (4, [(0, 1, 5), (0, 2, 3), (1, 3, 2), (2, 3, 3)]),
        (4, [(0, 1, 1), (0, 2, 1), (1, 3, 1), (2, 3, 1)]), (4, [(0, 2, 4), (1, 2, 6), (2, 3, 10)]), (3, [(0, 1, 0), (1, 2, 0)]),
        (4, [(0, 1, 0), (1, 3, 5), (0, 2, 2), (2, 3, 0)]), (5, [(0, 1, 3), (1, 2, 3), (2, 4, 1), (1, 3, 2), (3, 4, 2), (0, 3, 1)]),
        (5, [(0, 2, 7), (1, 2, 2), (2, 3, 4), (2, 4, 6)]), (4, [(0, 1, 2.5), (1, 2, 0.5), (1, 3, 2.0), (0, 3, 1.5)]), (2, [(0, 1, 4)]),
        (5, [(0, 1, 9), (1, 2, 1), (2, 3, 9), (3, 4, 9), (0, 3, 2)]),
    ]

    def instances():
        out = []
        for n, E in INSTANCES:
            def hc(c, f, n=n, E=E):
                flow = {(a, b): w for a, b, w in E}
                preds = {x: [a for a, b, w in E if b == x] for x in range(n)}
                succs = {x: [b for a, b, w in E if a == x] for x in range(n)}
                c.assume(INF > 1000)
                c.assume(NINF < 0)

                class EdgeView:
                    def __getitem__(self, key):
                        class Attr:
                            def __getitem__(self, attr): return flow[(int(key[0]), int(key[1]))]
                        return Attr()

                class G:
                    topo = list(range(n))
                    edges = EdgeView()
                    @staticmethod
                    def in_degree(x): return len(preds[_int(x)])
                    @staticmethod
                    def out_degree(x): return len(succs[_int(x)])
                    @staticmethod
                    def predecessors(x): return list(preds[_int(x)])
                st["dicts"] = iter(["B", "maxInNeighbor"])
                st["n"] = z3.IntVal(n)
                f.__globals__["__pv"].native_whiles, f.__globals__["__pv"]._ticks, f.__globals__["__pv"].native_budget = True, 0, 3000
                # all source-to-sink paths and the best bottleneck, by enumeration
                paths = []
                def ext(p):
                    if not succs[p[-1]]:
                        paths.append(p)
                    for b in succs[p[-1]]:
                        ext(p + [b])
                for x in range(n):
                    if not preds[x] and succs[x]:
                        ext([x])
                best = max(min(flow[(a, b)] for a, b in zip(p, p[1:])) for p in paths)
                bott, path = f(G, "flow")
                if path is None:
                    c.prove("instance:(None,None)-only-if-no-path-has-a-positive-bottleneck", z3.BoolVal(best == 0 and bott is None), prop=P)
                    return
                c.prove("instance:a-path-is-reported-only-if-some-path-has-a-positive-bottleneck", z3.BoolVal(best > 0), prop=P)
                seq = path if isinstance(path, SymSeq) else None
                if seq is None:
                    c.prove("instance:the-path-is-a-list", False, prop=P)
                    return
                ln = z3.simplify(seq.n).as_long()
                nodes = [z3.simplify(lift(seq._at(z3.IntVal(q)))) for q in range(ln)]
                c.prove("instance:the-path-is-a-source-to-sink-path-of-the-graph", z3.BoolVal(all(z3.is_int_value(x) for x in nodes) and [x.as_long() for x in nodes] in paths), prop=P)
                if all(z3.is_int_value(x) for x in nodes) and [x.as_long() for x in nodes] in paths:
                    p = [x.as_long() for x in nodes]
                    mine = min(flow[(a, b)] for a, b in zip(p, p[1:]))
                    c.prove("instance:reported-bottleneck=bottleneck-of-the-reported-path=maximum-over-all-source-to-sink-paths",
                            z3.And(lift(bott) == z3.RealVal(str(mine)), z3.BoolVal(mine == best)), prop=P)
            out.append(("DAG on %d nodes, edges %s" % (n, E), hc))
        return out

    def pick():
        # maxBottleneckSink after an arbitrary number of iterations: None or some node (path split)
        c = core.ctx()
        if c.decide(z3.Bool(c.name("no_sink_yet")), "sink-none"):
            return None
        return Sym(c.fresh_const("best_sink", INT))
    st["pick"] = pick
    return Unit(GU, "max_bottleneck_path", h, globs=dict(nx=NX, dict=dict_, float=float_, reversed=lambda s: s[::-1]), loops=loops, props=[P], instances=instances,
                literals=dict(list_of=lambda elts: SymSeq(z3.IntVal(len(elts)), (lambda e: (lambda j: e[0]))(elts), SInt, "reverse_path")),
                assumptions=["A2 networkx: topological_sort lists every node once, predecessors first; predecessors(v) / in_degree / out_degree describe the edges of G",
                             "requires: flow values are finite and non-negative; the DAG has at least one edge",
                             "float('inf') / float('-inf') are modelled as two real constants above / below every flow value (the code only compares and takes minima)",
                             "NOT proved: the reported value is the maximum over all source-to-sink paths (induction over paths); termination of the recovery loop"],
                abstractions=["nodes are integers; the dicts B / maxInNeighbor are functions with a written-keys predicate"])


def u_decompose():
    """stDAG.decompose_using_max_bottleneck: the peeling loop.
    ensures (conservation): for every edge  remaining(e) + sum of the weights of the reported paths through e = flow(e)  and remaining(e) >= 0 at every moment, hence
            the reported weighted paths never carry more than the flow of an edge; every reported path is a source-to-sink path of the working copy with a
            positive weight; one weight per path; the loop stops only when the callee reports no path.
    callee contract (max_bottleneck_path, proved above + requires): (None, None), or a node-simple path along edges whose remaining value is >= the
            reported positive bottleneck.
    NOT proved: that nothing remains at the end when the flow is conserving (then the weights add up to the flow exactly): a graph argument; termination."""
    st = {}
    PN, PL = z3.Function("reported_path_node", INT, INT, INT), z3.Function("reported_path_length", INT, INT)
    WG = z3.Function("reported_weight", INT, REAL)
    THR = z3.Function("weight_through_edge_of_the_first_paths", INT, INT, INT, REAL)      # (tail, head, number of paths counted)
    F0 = z3.Function("initial_flow", INT, INT, REAL)
    E0 = z3.Function("edge_of_the_working_copy", INT, INT, BOOL)

    def on_path(q, a, b):
        i = z3.Int("oi")
        return z3.Exists([i], z3.And(i >= 0, i < PL(q) - 1, PN(q, i) == a, PN(q, i + 1) == b))

    class Rem:
        def __init__(self, fn): self.fn = fn

    class TempG(Tracked):
        def __init__(self):
            self.rem = Rem(lambda a, b: F0(a, b))
            self.log = []
        def add_nodes_from(self, nodes): self.log.append("nodes")
        def add_edges_from(self, edges): self.log.append("edges")
        def remove_nodes_from(self, nodes): self.log.append("remove")
        def __getitem__(self, a):
            G, a = self, lift(a)
            class Row:
                def __getitem__(s2, b):
                    b = lift(b)
                    class Attr:
                        def __getitem__(s3, attr):
                            core.ctx().prove("pre:only-edges-of-the-working-copy-are-updated", E0(a, b), kind="pre")
                            return Sym(G.rem.fn(a, b))
                        def __setitem__(s3, attr, val):
                            old, v = G.rem.fn, lift(val)
                            object.__setattr__(G, "rem", Rem(lambda x, y: z3.If(z3.And(x == a, y == b), v, old(x, y))))
                    return Attr()
            return Row()

    class PathList:
        """`paths`: the reported paths, recorded in the ghost functions PN / PL"""
        def __init__(self, n): self.n = lift(n)
        def append(self, p):
            c, q, i = core.ctx(), self.n, z3.Int("pa")
            c.assume(z3.And(PL(q) == p.n, z3.ForAll([i], z3.Implies(z3.And(i >= 0, i < p.n), PN(q, i) == lift(p._at(i))))))      # names the new entry (index q is fresh)
            self.n = q + 1

    class WeightList:
        def __init__(self, n): self.n = lift(n)
        def append(self, w):
            c, q = core.ctx(), self.n
            c.assume(WG(q) == lift(w))
            self.n = q + 1

    def callee(G, attr):
        """CONTRACT of graphutils.max_bottleneck_path on the working copy (see u_max_bottleneck_path)"""
        c = core.ctx()
        if c.decide(z3.Bool(c.name("no_more_paths")), "callee-none"):
            return None, None
        b = c.fresh_const("bottleneck", REAL)
        p = SymSeq.fresh("path", SInt)
        i, i2 = z3.Ints("ki ki2")
        at = lambda q: lift(p._at(q))
        c.assume(z3.And(b > 0, p.n >= 1,
                        z3.ForAll([i], z3.Implies(z3.And(i >= 0, i < p.n - 1), z3.And(E0(at(i), at(i + 1)), G.rem.fn(at(i), at(i + 1)) >= b))),
                        z3.ForAll([i, i2], z3.Implies(z3.And(i >= 0, i < i2, i2 < p.n), at(i) != at(i2)))))
        st["calls"] = st.get("calls", 0) + 1
        return Sym(b), p

    def callee_or_real(G, attr):
        if st.get("concrete"):
            from flowpaths.utils import graphutils as real
            return real.max_bottleneck_path(G, attr)
        return callee(G, attr)

    class GUStub:
        max_bottleneck_path = staticmethod(callee_or_real)

    class NX:
        @staticmethod
        def DiGraph():
            if st.get("concrete"):
                import networkx
                return networkx.DiGraph()
            st["T"] = TempG()
            return st["T"]

    def conserved(T, n):
        a, b = z3.Ints("ca cb")
        return z3.ForAll([a, b], z3.And(T.rem.fn(a, b) + THR(a, b, n) == F0(a, b), T.rem.fn(a, b) >= 0))

    def inv_outer(ns, seq, done):
        T, P_, W_ = ns["temp_G"], ns["paths"], ns["weights"]
        q, i = z3.Ints("iq ii")
        return {"one-weight-per-path": z3.And(P_.n == W_.n, P_.n >= 0),
                "conservation:remaining+weight-through=flow-on-every-edge,-remaining>=0": conserved(T, P_.n),
                "reported-paths-run-along-edges-of-the-working-copy-with-positive-weights":
                    z3.ForAll([q], z3.Implies(z3.And(q >= 0, q < P_.n), z3.And(WG(q) > 0, PL(q) >= 1,
                              z3.ForAll([i], z3.Implies(z3.And(i >= 0, i < PL(q) - 1), E0(PN(q, i), PN(q, i + 1)))))))}

    def enter_inner(ns, it=None):
        if st.get("concrete"):
            return
        st["rem0"] = ns["temp_G"].rem.fn
        st["path"], st["b"] = ns["path"], lift(ns["bottleneck"])

    def inv_inner(ns, seq, done):
        T, p, bv, d = ns["temp_G"], st["path"], st["b"], lift(done)
        a, b, i = z3.Ints("na nb ni")
        at = lambda q: lift(p._at(q))
        hit = z3.Exists([i], z3.And(i >= 0, i < d, at(i) == a, at(i + 1) == b))
        return {"the-first-edges-of-the-path-so-far-lost-exactly-the-bottleneck,-nothing-else-changed":
                z3.ForAll([a, b], T.rem.fn(a, b) == st["rem0"](a, b) - z3.If(hit, bv, z3.RealVal(0)))}

    def h(c, f):
        class Me(Tracked):
            pass
        me = Me()
        a, b, q = z3.Ints("ha hb hq")
        c.assume(z3.ForAll([a, b], F0(a, b) >= 0))                                                                   # requires: non-negative values
        c.assume(z3.ForAll([a, b], THR(a, b, 0) == 0))
        c.assume(z3.ForAll([a, b, q], z3.Implies(q >= 0, THR(a, b, q + 1) == THR(a, b, q) + z3.If(on_path(q, a, b), WG(q), z3.RealVal(0)))))   # definition of the ghost sum
        me.nodes = lambda: "NODES"
        me.edges = lambda data=False: "EDGES"
        me.source, me.sink = "S", "T"
        st["lists"] = iter(["paths", "weights"])
        st["calls"] = 0
        res = f(me, "flow")
        T = st["T"]
        P_, W_ = res
        c.prove("post:the-working-copy-holds-this-graph's-edges-and-the-synthetic-source-and-sink-are-removed-afterwards",
                z3.BoolVal("edges" in T.log and "remove" in T.log and T.log.index("remove") > T.log.index("edges")), prop=P)
        c.prove("post:one-weight-per-path", z3.And(P_.n == W_.n), prop=P)
        c.prove("post:conservation:the-reported-weights-through-an-edge-plus-what-remains-on-it-equal-its-flow;-nothing-negative-remains", conserved(T, P_.n), prop=P)
        c.prove("post:the-reported-weighted-paths-never-carry-more-than-the-flow-of-an-edge", z3.ForAll([a, b], THR(a, b, P_.n) <= F0(a, b)), prop=P)
        i = z3.Int("pi")
        c.prove("post:every-reported-path-runs-along-edges-of-the-working-copy-and-has-a-positive-weight",
                z3.ForAll([q], z3.Implies(z3.And(q >= 0, q < P_.n), z3.And(WG(q) > 0, z3.ForAll([i], z3.Implies(z3.And(i >= 0, i < PL(q) - 1), E0(PN(q, i), PN(q, i + 1))))))), prop=P)

    def list_():
        if st.get("concrete"):
            return []
        which = next(st["lists"])
        return PathList(0) if which == "paths" else WeightList(0)

    # ---- concrete instances: the real stDAG of a small conserving flow, the real callee, the loop run natively; here the FULL clause of C17 is decided
    FLOWS = [
        [("s", "a", 3), ("a", "t", 3)],
        [("s", "a", 2), ("s", "b", 1), ("a", "t", 2), ("b", "t", 1)],
        [("s", "a", 5), ("a", "b", 2), ("a", "c", 3), ("b", "t", 2), ("c", "t", 3)],
        [("s", "a", 4), ("s", "b", 3), ("a", "m", 4), ("b", "m", 3), ("m", "p", 5), ("m", "q", 2), ("p", "t", 5), ("q", "t", 2)],
        [("s", "a", 1), ("s", "b", 1), ("a", "b", 1), ("b", "t", 2)],
        [("s", "a", 2.5), ("a", "b", 1.0), ("a", "t", 1.5), ("b", "t", 1.0)],
        [("s", "a", 6), ("a", "b", 4), ("a", "c", 2), ("b", "c", 1), ("b", "t", 3), ("c", "t", 3)],
        [("s", "a", 0), ("a", "t", 0), ("s", "b", 2), ("b", "t", 2)],
    ]

    def instances():
        out = []
        for E in FLOWS:
            def hc(c, f, E=E):
                import networkx
                import flowpaths as fp
                g = networkx.DiGraph()
                for a, b, w in E:
                    g.add_edge(a, b, flow=w)
                me = fp.stDAG(g)
                st.update(concrete=True)
                f.__globals__["__pv"].native_whiles, f.__globals__["__pv"]._ticks, f.__globals__["__pv"].native_budget = True, 0, 3000
                try:
                    paths, weights = f(me, "flow")
                finally:
                    st.update(concrete=False)
                from fractions import Fraction
                thr = {}
                ok_paths = True
                for p, w in zip(paths, weights):
                    ok_paths = ok_paths and len(p) >= 2 and all(g.has_edge(a, b) for a, b in zip(p, p[1:])) and g.in_degree(p[0]) == 0 and g.out_degree(p[-1]) == 0 and w > 0
                    for a, b in zip(p, p[1:]):
                        thr[(a, b)] = thr.get((a, b), 0) + Fraction(w)
                c.prove("instance:one-positive-weight-per-path,-each-path-a-source-to-sink-path-of-the-graph-(no-synthetic-node)", z3.BoolVal(bool(ok_paths and len(paths) == len(weights))), prop=P)
                c.prove("instance:the-weights-of-the-paths-through-an-edge-add-up-to-its-flow,-on-every-edge",
                        z3.BoolVal(all(thr.get((a, b), 0) == Fraction(w) for a, b, w in E)), prop=P)
                c.prove("instance:the-caller's-flow-values-are-untouched", z3.BoolVal(all(g[a][b]["flow"] == w for a, b, w in E)), prop=P)
            out.append(("conserving flow %s" % (E,), hc))
        return out

    fresh_rem = lambda old: Rem((lambda f_: (lambda x, y: f_(x, y)))(z3.Function(core.ctx().name("remaining"), INT, INT, REAL)))
    loops = {0: dict(inv=inv_outer, prop=P, modifies=[(("temp_G", "rem"), fresh_rem)], keep=("i",),
                     havoc={"paths": lambda old: PathList(core.ctx().fresh_const("n_paths", INT)), "weights": lambda old: WeightList(core.ctx().fresh_const("n_weights", INT)),
                            "bottleneck": lambda old: old, "path": lambda old: old, "temp_G": lambda old: old}),
             1: dict(inv=inv_inner, prop=P, on_entry=enter_inner, modifies=[(("temp_G", "rem"), fresh_rem)], havoc={"temp_G": lambda old: old})}
    return Unit("flowpaths/stdag.py", "stDAG.decompose_using_max_bottleneck", h, globs=dict(nx=NX, graphutils=GUStub, list=list_), loops=loops, props=[P], instances=instances,
                callee_contracts=["graphutils.max_bottleneck_path: (None, None) or a node-simple path along edges of remaining value >= the positive bottleneck (own unit; the requires "
                                  "'non-negative values' is re-established by the conservation invariant)"],
                assumptions=["networkx: the working copy holds the nodes and edges (with attributes) of this graph minus the synthetic source and sink",
                             "NOT proved: for a conserving flow nothing remains when no path is left (then the weights add up to the flow on every edge); termination"],
                abstractions=["nodes are integers", "the remaining values are a function of the edge; the reported paths / weights are recorded in ghost functions; the weight through an edge is a ghost prefix sum"])


def u_edge_max_reachable():
    """stDiGraph.compute_edge_max_reachable_value: per-edge maximum over the edge itself, everything reachable from its head, everything reaching its tail,
    computed by two DPs over the SCC condensation.
    ensures  local_out[c] / local_in[c] = max(0, weights of the edges whose tail / head lies in SCC c)            (>= every such weight, 0 or attained)
             max_desc satisfies  max_desc[c] = max(local_out[c], max_desc of the successors of c)                   (fix-point, >= / attained form)
             max_anc  satisfies  max_anc[s]  = max(local_in[s],  max_anc of the predecessors of s)                  (fix-point, >= / attained form)
             result[(u,v)] = max(weight(u,v), max_desc[scc(v)], max_anc[scc(u)])  for every edge, and nothing else is in the result
    LM5 (not proved): on the condensation DAG these fix-points are unique and equal the maxima over reachable / reaching edges; the bounded part compares with a search."""
    st = {}
    CN, CIDX, ISC = z3.Function("scc_at", INT, INT), z3.Function("scc_index", INT, INT), z3.Function("is_scc", INT, BOOL)
    CPOS, CTOP = z3.Function("scc_pos_in_topological_order", INT, INT), z3.Function("scc_at_pos", INT, INT)
    CDEG, CSUCC = z3.Function("scc_out_degree", INT, INT), z3.Function("scc_successor", INT, INT, INT)
    CEDGE = z3.Function("condensation_edge", INT, INT, BOOL)
    MAPF = z3.Function("scc_of", INT, INT)
    EU, EV, WE = z3.Function("edge_tail", INT, INT), z3.Function("edge_head", INT, INT), z3.Function("edge_weight", INT, REAL)

    class PairMap:
        def __init__(self, fn, dom): self.fn, self.dom = fn, dom
        def __getitem__(self, k):
            a, b = lift(k[0]), lift(k[1])
            core.ctx().prove("pre:dict-read-only-for-a-key-that-was-written", self.dom(a, b), kind="pre")
            return Sym(self.fn(a, b))
        def __setitem__(self, k, v):
            a, b, v, of, od = lift(k[0]), lift(k[1]), lift(v), self.fn, self.dom
            v = z3.ToReal(v) if v.sort() == INT else v
            self.fn = lambda x, y: z3.If(z3.And(x == a, y == b), v, of(x, y))
            self.dom = lambda x, y: z3.Or(z3.And(x == a, y == b), od(x, y))
        @classmethod
        def empty(cls): return cls(lambda x, y: z3.RealVal(0), lambda x, y: z3.BoolVal(False))
        @classmethod
        def fresh(cls, name):
            c = core.ctx()
            f, d = z3.Function(c.name(name), INT, INT, REAL), z3.Function(c.name(name + ".dom"), INT, INT, BOOL)
            return cls(lambda x, y: f(x, y), lambda x, y: d(x, y))

    def dictcomp(fn, it, flt):
        if flt is not None:
            raise Unsupported("filtered dict comprehension")
        c = core.ctx()
        u = z3.Int(c.name("dc"))
        with c.quantified(ISC(u)):
            k, v = fn(Sym(u))
        if not z3.eq(z3.simplify(lift(k)), u):
            raise Unsupported("dict comprehension key")
        v = lift(v) if isinstance(v, Sym) else z3.RealVal(str(v))
        v = z3.ToReal(v) if v.sort() == INT else v
        return FnMap(lambda x: z3.substitute(v, (u, x)), lambda x: ISC(x))

    def mx(a, b): return z3.If(a >= b, a, b)

    def local_state(m, ends, d):
        """m = local_out (ends = EU) or local_in (ends = EV) after the first d edges"""
        cc, j = z3.Ints("lc lj")
        return z3.And(z3.ForAll([cc], z3.And(m.dom(cc) == ISC(cc), z3.Implies(ISC(cc), m.fn(cc) >= 0))),
                      z3.ForAll([j], z3.Implies(z3.And(j >= 0, j < d), m.fn(MAPF(ends(j))) >= WE(j))),
                      z3.ForAll([cc], z3.Implies(ISC(cc), z3.Or(m.fn(cc) == 0, z3.Exists([j], z3.And(j >= 0, j < d, MAPF(ends(j)) == cc, m.fn(cc) == WE(j)))))))

    def inv_edges(ns, seq, done):
        d, ew = lift(done), ns["edge_weight"]
        j = z3.Int("ej")
        return {"edge_weight-holds-the-weight-of-every-edge-seen": z3.ForAll([j], z3.Implies(z3.And(j >= 0, j < d), z3.And(ew.dom(EU(j), EV(j)), ew.fn(EU(j), EV(j)) == WE(j)))),
                "local_out[c]=max(0,-weights-of-the-edges-seen-with-tail-in-c)": local_state(ns["local_out"], EU, d),
                "local_in[c]=max(0,-weights-of-the-edges-seen-with-head-in-c)": local_state(ns["local_in"], EV, d)}

    def desc_fix(md, lo, cc):
        j = z3.Int("dj")
        return z3.And(md.fn(cc) >= lo.fn(cc), z3.ForAll([j], z3.Implies(z3.And(j >= 0, j < CDEG(cc)), md.fn(cc) >= md.fn(CSUCC(cc, j)))),
                      z3.Or(md.fn(cc) == lo.fn(cc), z3.Exists([j], z3.And(j >= 0, j < CDEG(cc), md.fn(cc) == md.fn(CSUCC(cc, j))))))

    def inv_desc_outer(ns, seq, done):
        d, md, lo, n = lift(done), ns["max_desc"], ns["local_out"], st["nC"]
        cc = z3.Int("oc")
        rpos = lambda x: n - 1 - CPOS(x)             # position in the reversed topological order
        return {"processed-SCCs:max_desc=max(local_out,-max_desc-of-the-successors);-the-others-still-hold-local_out":
                    z3.ForAll([cc], z3.And(md.dom(cc) == ISC(cc), z3.Implies(ISC(cc), z3.If(rpos(cc) < d, desc_fix(md, lo, cc), md.fn(cc) == lo.fn(cc)))))}

    def enter_desc_inner(ns, it=None):
        if st.get("concrete"):
            return
        st["md0"], st["cur"] = ns["max_desc"].fn, lift(ns["c"])

    def inv_desc_inner(ns, seq, done):
        e, md, lo, cur, md0 = lift(done), ns["max_desc"], ns["local_out"], st["cur"], st["md0"]
        j, w = z3.Ints("nj nw")
        return {"max_desc[c]=max(local_out[c],-max_desc-of-the-successors-seen-so-far)":
                    z3.And(md.fn(cur) >= md0(cur), z3.ForAll([j], z3.Implies(z3.And(j >= 0, j < e), md.fn(cur) >= md0(CSUCC(cur, j)))),
                           z3.Or(md.fn(cur) == md0(cur), z3.Exists([j], z3.And(j >= 0, j < e, md.fn(cur) == md0(CSUCC(cur, j)))))),
                "other-entries-unchanged": z3.ForAll([w], z3.And(md.dom(w) == ISC(w), z3.Implies(w != cur, md.fn(w) == md0(w))))}

    def anc_state(ma, li, d):
        cc, s, j, p = z3.Ints("ac as aj ap")
        return z3.And(z3.ForAll([cc], z3.And(ma.dom(cc) == ISC(cc), z3.Implies(ISC(cc), ma.fn(cc) >= li.fn(cc)))),
                      z3.ForAll([cc, j], z3.Implies(z3.And(ISC(cc), CPOS(cc) < d, j >= 0, j < CDEG(cc)), ma.fn(CSUCC(cc, j)) >= ma.fn(cc))),
                      z3.ForAll([s], z3.Implies(ISC(s), z3.Or(ma.fn(s) == li.fn(s),
                                                               z3.Exists([p, j], z3.And(ISC(p), CPOS(p) < d, j >= 0, j < CDEG(p), CSUCC(p, j) == s, ma.fn(s) == ma.fn(p)))))))

    def inv_anc_outer(ns, seq, done):
        return {"max_anc:every-SCC-holds-at-least-local_in;-processed-SCCs-have-pushed-their-value-to-their-successors;-every-value-is-local_in-or-a-processed-predecessor's":
                    anc_state(ns["max_anc"], ns["local_in"], lift(done))}

    def enter_anc_inner(ns, it=None):
        if st.get("concrete"):
            return
        st["ma0"], st["cur"] = ns["max_anc"].fn, lift(ns["c"])

    def inv_anc_inner(ns, seq, done):
        e, ma, cur, ma0 = lift(done), ns["max_anc"], st["cur"], st["ma0"]
        j, x = z3.Ints("mj mx")
        return {"successors-seen-so-far-hold-at-least-max_anc[c];-every-entry-is-unchanged-or-a-seen-successor-raised-to-max_anc[c]":
                    z3.And(z3.ForAll([j], z3.Implies(z3.And(j >= 0, j < e), ma.fn(CSUCC(cur, j)) >= ma0(cur))),
                           z3.ForAll([x], z3.And(ma.dom(x) == ISC(x), ma.fn(x) >= ma0(x),
                                                 z3.Or(ma.fn(x) == ma0(x), z3.Exists([j], z3.And(j >= 0, j < e, CSUCC(cur, j) == x, ma.fn(x) == ma0(cur)))))))}

    def want(ns_or, j):
        md, ma = ns_or["max_desc"], ns_or["max_anc"]
        return mx(mx(WE(j), md.fn(MAPF(EV(j)))), ma.fn(MAPF(EU(j))))

    def inv_result(ns, seq, done):
        d, res = lift(done), ns["result"]
        j, a, b = z3.Ints("rj ra rb")
        return {"result-holds-max(weight,-max_desc[scc(head)],-max_anc[scc(tail)])-for-every-edge-seen-and-nothing-else":
                    z3.And(z3.ForAll([j], z3.Implies(z3.And(j >= 0, j < d), z3.And(res.dom(EU(j), EV(j)), res.fn(EU(j), EV(j)) == want(ns, j)))),
                           z3.ForAll([a, b], z3.Implies(res.dom(a, b), z3.Exists([j], z3.And(j >= 0, j < d, EU(j) == a, EV(j) == b)))))}

    def h(c, f):
        nC, nE = c.fresh_const("n_sccs", INT), c.fresh_const("n_edges", INT)
        st.update(nC=nC, nE=nE)
        j, j2, x = z3.Ints("hj hj2 hx")
        c.assume(z3.And(nC >= 0, nE >= 0))
        c.assume(z3.ForAll([j], z3.Implies(z3.And(j >= 0, j < nC), z3.And(ISC(CN(j)), CIDX(CN(j)) == j))))                                 # C.nodes() lists the SCCs ...
        c.assume(z3.ForAll([x], z3.Implies(ISC(x), z3.And(CIDX(x) >= 0, CIDX(x) < nC, CN(CIDX(x)) == x))))                                 # ... all of them, each once
        c.assume(z3.ForAll([x], z3.Implies(ISC(x), z3.And(CPOS(x) >= 0, CPOS(x) < nC, CTOP(CPOS(x)) == x))))                               # A2 topological order: a bijection ...
        c.assume(z3.ForAll([j], z3.Implies(z3.And(j >= 0, j < nC), z3.And(ISC(CTOP(j)), CPOS(CTOP(j)) == j))))
        c.assume(z3.ForAll([x], CDEG(x) >= 0))
        c.assume(z3.ForAll([x, j], z3.Implies(z3.And(ISC(x), j >= 0, j < CDEG(x)), z3.And(ISC(CSUCC(x, j)), CPOS(CSUCC(x, j)) > CPOS(x)))))  # ... with successors later
        c.assume(z3.ForAll([j], z3.Implies(z3.And(j >= 0, j < nE), z3.And(ISC(MAPF(EU(j))), ISC(MAPF(EV(j)))))))                          # mapping sends nodes to SCCs
        c.assume(z3.ForAll([j, j2], z3.Implies(z3.And(j >= 0, j < j2, j2 < nE), z3.Or(EU(j) != EU(j2), EV(j) != EV(j2)))))                  # a digraph lists each edge once

        class Mapping:
            def __getitem__(self, u): return Sym(MAPF(lift(u)))

        class Data:
            def __init__(self, j): self.j = lift(j)
            def get(self, key, default=None): return Sym(WE(self.j))          # a missing attribute reads as the default 0.0: WE(j) is that value

        class Cond:
            graph = {"mapping": Mapping()}
            @staticmethod
            def nodes(): return SymSeq(nC, lambda q: Sym(CN(lift(q))), SInt, "C.nodes")
            @staticmethod
            def successors(x):
                x = lift(x)
                return SymSeq(CDEG(x), lambda q: Sym(CSUCC(x, lift(q))), SInt, "C.successors")

        class Me(Tracked):
            pass
        me = Me()
        me._condensation = Cond()
        def edges(data=False):
            if data:
                return SymSeq(nE, lambda q: (Sym(EU(lift(q))), Sym(EV(lift(q))), Data(q)), None, "edges(data)")
            return SymSeq(nE, lambda q: (Sym(EU(lift(q))), Sym(EV(lift(q)))), None, "edges")
        me.edges = edges
        st["dicts"] = iter(["edge_weight", "result"])
        res = f(me, "flow")
        ns = st["final"]
        lo, li, md, ma = ns["local_out"], ns["local_in"], ns["max_desc"], ns["max_anc"]
        cc, a, b = z3.Ints("pc pa pb")
        c.prove("post:local_out/local_in=max(0,-weights-of-the-edges-with-tail/head-in-the-SCC)", z3.And(local_state(lo, EU, nE), local_state(li, EV, nE)), prop=P)
        c.prove("post:max_desc-satisfies-max_desc[c]=max(local_out[c],-max_desc-of-the-successors)", z3.ForAll([cc], z3.Implies(ISC(cc), desc_fix(md, lo, cc))), prop=P)
        c.prove("post:max_anc-satisfies-max_anc[s]=max(local_in[s],-max_anc-of-the-predecessors)", anc_state(ma, li, nC), prop=P)
        c.prove("post:result[(u,v)]=max(weight(u,v),-max_desc[scc(v)],-max_anc[scc(u)])-for-every-edge-and-nothing-else",
                z3.And(z3.BoolVal(isinstance(res, PairMap)),
                       z3.ForAll([j], z3.Implies(z3.And(j >= 0, j < nE), z3.And(res.dom(EU(j), EV(j)), res.fn(EU(j), EV(j)) == want(ns, j)))) if isinstance(res, PairMap) else z3.BoolVal(False),
                       z3.ForAll([a, b], z3.Implies(res.dom(a, b), z3.Exists([j], z3.And(j >= 0, j < nE, EU(j) == a, EV(j) == b)))) if isinstance(res, PairMap) else z3.BoolVal(False)), prop=P)

    def dict_lit():
        if st.get("concrete"):
            return {}
        which = next(st["dicts"])
        return PairMap.empty()

    # ---- concrete instances: the real stDiGraph of small digraphs (with cycles), compared with a plain search: LM5 decided on them
    GRAPHS = [
        [("s", "a", 1), ("a", "b", 1), ("b", "c", 5), ("c", "a", 3), ("c", "d", 2)],
        [("s", "a", 4), ("a", "t", 1), ("s", "b", 2), ("b", "t", 7)],
        [("s", "a", 1), ("a", "b", 2), ("b", "a", 9), ("b", "t", 3), ("s", "t", 4)],
        [("s", "a", 3), ("a", "a", 8), ("a", "t", 2)],
        [("s", "x", 1), ("x", "y", 1), ("y", "x", 1), ("y", "z", 6), ("z", "w", 1), ("w", "z", 2), ("w", "t", 1), ("s", "t", 5)],
        [("s", "a", 2.5), ("a", "b", 0.5), ("b", "t", 1.5), ("a", "t", 0.0)],
        [("p", "q", 7), ("q", "t", 1), ("s", "q", 2), ("s", "r", 3), ("r", "t", 4)],
    ]

    def instances():
        out = []
        for E in GRAPHS:
            def hc(c, f, E=E):
                import networkx
                import flowpaths as fp
                g = networkx.DiGraph()
                for a, b, w in E:
                    g.add_edge(a, b, flow=w)
                me = fp.stDiGraph(g)
                st.update(concrete=True)
                try:
                    res = f(me, "flow")
                finally:
                    st.update(concrete=False)
                wt = {(a, b): float(d.get("flow", 0.0)) for a, b, d in me.edges(data=True)}
                ok, bad = True, None
                for (u, v) in me.edges():
                    fwd = networkx.descendants(me, v) | {v}
                    bwd = networkx.ancestors(me, u) | {u}
                    best = max([wt[(u, v)]] + [w for (a, b), w in wt.items() if a in fwd] + [w for (a, b), w in wt.items() if b in bwd])
                    if res.get((u, v)) != best:
                        ok, bad = False, ((u, v), res.get((u, v)), best)
                c.prove("instance:value=maximum-over-the-edge,-the-edges-reachable-from-its-head-and-the-edges-reaching-its-tail-(plain-search)", z3.BoolVal(ok), prop=P, info=str(bad))
                c.prove("instance:one-entry-per-edge-of-the-s-t-graph", z3.BoolVal(set(res) == set(me.edges())), prop=P)
            out.append(("digraph %s" % (E,), hc))
        return out

    def rec(inv):
        def f_(ns, seq, done):
            st["final"] = ns
            return inv(ns, seq, done)
        return f_

    class NX:
        @staticmethod
        def topological_sort(C):
            if st.get("concrete"):
                import networkx
                return networkx.topological_sort(C)
            return SymSeq(st["nC"], lambda q: Sym(CTOP(lift(q))), SInt, "topological_sort")

    fm = lambda nm: (lambda old: FnMap.fresh(nm, REAL))
    pm = lambda nm: (lambda old: PairMap.fresh(nm))
    tmp = ("u", "v", "data", "w", "cu", "cv", "s")
    loops = {0: dict(inv=inv_edges, prop=P, keep=tmp, havoc={"edge_weight": pm("edge_weight"), "local_out": fm("local_out"), "local_in": fm("local_in")}),
             1: dict(inv=inv_desc_outer, prop=P, keep=tmp, havoc={"max_desc": fm("max_desc")}),
             2: dict(inv=inv_desc_inner, prop=P, keep=tmp, on_entry=enter_desc_inner, havoc={"max_desc": fm("max_desc")}),
             3: dict(inv=inv_anc_outer, prop=P, keep=tmp, havoc={"max_anc": fm("max_anc")}),
             4: dict(inv=inv_anc_inner, prop=P, keep=tmp, on_entry=enter_anc_inner, havoc={"max_anc": fm("max_anc")}),
             5: dict(inv=rec(inv_result), prop=P, keep=tmp, havoc={"result": pm("result")})}
    return Unit("flowpaths/stdigraph.py", "stDiGraph.compute_edge_max_reachable_value", h, globs=dict(nx=NX, reversed=lambda s_: s_[::-1]), loops=loops, props=[P], instances=instances,
                literals=dict(dict=dict_lit, dictcomp=dictcomp),
                assumptions=["A2 networkx: C.nodes() lists every SCC once; topological_sort(C) lists every SCC once with successors later; C.successors(c) enumerates the condensation edges; "
                             "C.graph['mapping'] sends a node to its SCC; edges() lists each edge once",
                             "LM5 (not proved): on the condensation DAG the two fix-points are unique and equal the maximum weight over the edges reachable from / reaching the SCC"],
                abstractions=["nodes and SCCs are integers; dicts are functions with a written-keys predicate; a missing weight attribute is its default value"])


def all_units():
    return [u_max_bottleneck_path(), u_decompose(), u_edge_max_reachable()]
