"""Sidecar contracts for C17 (proof pieces): greedy bottleneck peeling.

graphutils.max_bottleneck_path(G, flow_attr)     the DP over a topological order and the path recovery
stDAG.decompose_using_max_bottleneck(flow_attr)  the peeling loop: CONSERVATION (no flow invented, none lost track of)

Not proved (graph arguments, left to the bounded comparison): that the DP value is the maximum over ALL paths, that peeling a conserving flow
ends with nothing left on any edge, termination of the two `while` loops."""
import z3
from pyvc import core
from pyvc.core import Sym, lift, INT, REAL, BOOL, Unsupported
from pyvc.heap import SymSeq, SInt, SReal
from pyvc.rt import Tracked
from pyvc.unit import Unit, NoopLogger

P = "C17"
GU = "flowpaths/utils/graphutils.py"
POS, TOP = z3.Function("pos_in_topological_order", INT, INT), z3.Function("node_at", INT, INT)
IND, OUTD = z3.Function("in_degree", INT, INT), z3.Function("out_degree", INT, INT)
PRED = z3.Function("predecessor", INT, INT, INT)
EDGE = z3.Function("is_edge", INT, INT, BOOL)
FLOW = z3.Function("flow", INT, INT, REAL)
INF, NINF = z3.Real("plus_infinity"), z3.Real("minus_infinity")


class FnMap:
    """a dict used as a total function on the keys that were written (reads of other keys are guarded by `pre` obligations)"""
    def __init__(self, fn, dom):
        self.fn, self.dom = fn, dom
    def __getitem__(self, k):
        if k is None:
            if not core.ctx()._feasible(z3.BoolVal(True)):
                raise core.PathAbort()                                    # this path cannot happen under the hypotheses collected so far
            core.ctx().prove("pre:dict-read-with-a-key-that-is-not-None", z3.BoolVal(False), kind="pre")      # discharged only where the path is infeasible
            raise KeyError(None)
        k = lift(k)
        core.ctx().prove("pre:dict-read-only-for-a-key-that-was-written", self.dom(k), kind="pre")
        return Sym(self.fn(k))
    def __setitem__(self, k, v):
        k, v, of, od = lift(k), lift(v), self.fn, self.dom
        if v.sort() == INT and of(z3.IntVal(0)).sort() == REAL:
            v = z3.ToReal(v)
        self.fn = lambda x: z3.If(x == k, v, of(x))
        self.dom = lambda x: z3.Or(x == k, od(x))
    @classmethod
    def empty(cls, sort):
        zero = z3.RealVal(0) if sort == REAL else z3.IntVal(0)
        return cls(lambda x: zero, lambda x: z3.BoolVal(False))
    @classmethod
    def fresh(cls, name, sort):
        c = core.ctx()
        f, d = z3.Function(c.name(name), INT, sort), z3.Function(c.name(name + ".dom"), INT, BOOL)
        return cls(lambda x: f(x), lambda x: d(x))


def _int(x):
    if isinstance(x, Sym):
        return z3.simplify(x.t).as_long()
    return int(x)


def u_max_bottleneck_path():
    st = {}

    def node(v): return z3.And(POS(v) >= 0, POS(v) < st["n"], TOP(POS(v)) == v)
    def mn(a, b): return z3.If(a <= b, a, b)

    def done_node(B, M, v):
        """what the DP has established for a processed node v"""
        j = z3.Int("dj")
        return z3.And(B.dom(v),
                      z3.Implies(IND(v) == 0, B.fn(v) == INF),
                      z3.Implies(IND(v) > 0, z3.And(
                          M.dom(v), z3.Exists([j], z3.And(j >= 0, j < IND(v), PRED(v, j) == M.fn(v))),
                          B.fn(v) == mn(B.fn(M.fn(v)), FLOW(M.fn(v), v)), B.fn(v) >= 0, B.fn(v) < INF,
                          z3.ForAll([j], z3.Implies(z3.And(j >= 0, j < IND(v)), B.fn(v) >= mn(B.fn(PRED(v, j)), FLOW(PRED(v, j), v)))))))

    def sink_state(B, mbs, d):
        x = z3.Int("sx")
        cand = lambda x: z3.And(node(x), POS(x) < d, IND(x) > 0, OUTD(x) == 0)
        if mbs is None:
            return z3.ForAll([x], z3.Not(cand(x)))
        m = lift(mbs)
        return z3.And(cand(m), z3.ForAll([x], z3.Implies(cand(x), B.fn(m) >= B.fn(x))))

    def inv_outer(ns, seq, done):
        B, M, d = ns["B"], ns["maxInNeighbor"], lift(done)
        v = z3.Int("ov")
        return {"processed-nodes:B=inf-at-sources,-else-B=min(B[maxIn],flow)-is-the-best-over-the-predecessors":
                    z3.ForAll([v], z3.Implies(z3.And(node(v), POS(v) < d), done_node(B, M, v))),
                "best-sink-so-far": sink_state(B, ns["maxBottleneckSink"], d)}

    def enter_inner(ns, it=None):
        st["B0"], st["M0"], st["v"] = (ns["B"].fn, ns["B"].dom), (ns["maxInNeighbor"].fn, ns["maxInNeighbor"].dom), lift(ns["v"])

    def inv_inner(ns, seq, done):
        B, M, e, v = ns["B"], ns["maxInNeighbor"], lift(done), st["v"]
        (b0, bd0), (m0, md0) = st["B0"], st["M0"]
        j, w = z3.Ints("nj nw")
        val = lambda q: mn(b0(PRED(v, q)), FLOW(PRED(v, q), v))
        return {"B[v]=best-over-the-predecessors-seen-so-far-(minus-infinity-before-the-first),-maxIn[v]-attains-it":
                    z3.And(B.dom(v), z3.Implies(e == 0, B.fn(v) == NINF),
                           z3.Implies(e > 0, z3.And(M.dom(v), z3.Exists([j], z3.And(j >= 0, j < e, PRED(v, j) == M.fn(v), B.fn(v) == val(j))), B.fn(v) >= 0, B.fn(v) < INF)),
                           z3.ForAll([j], z3.Implies(z3.And(j >= 0, j < e), B.fn(v) >= val(j)))),
                "other-entries-unchanged": z3.ForAll([w], z3.Implies(w != v, z3.And(B.fn(w) == b0(w), B.dom(w) == bd0(w), M.fn(w) == m0(w), M.dom(w) == md0(w))))}

    def chain(B, M, rp, m, bval):
        i, i2 = z3.Ints("ci ci2")
        at = lambda q: lift(rp._at(q))
        return z3.And(rp.n >= 1, at(0) == m,
                      z3.ForAll([i, i2], z3.Implies(z3.And(i >= 0, i < i2, i2 < rp.n), POS(at(i2)) < POS(at(i)))),
                      z3.ForAll([i], z3.Implies(z3.And(i >= 0, i < rp.n), z3.And(node(at(i)), B.dom(at(i)), B.fn(at(i)) >= bval))),
                      z3.ForAll([i], z3.Implies(z3.And(i >= 0, i < rp.n - 1), z3.And(IND(at(i)) > 0, at(i + 1) == M.fn(at(i)), POS(at(i + 1)) < POS(at(i)),
                                                                                     EDGE(at(i + 1), at(i)), FLOW(at(i + 1), at(i)) >= bval))))

    def inv_recover(ns, seq, done):
        B, M, rp = ns["B"], ns["maxInNeighbor"], ns["reverse_path"]
        m = lift(ns["maxBottleneckSink"])
        return {"reverse-path-follows-maxIn-from-the-sink;-every-edge-on-it-carries-at-least-the-sink's-value": chain(B, M, rp, m, B.fn(m))}

    def h(c, f):
        n = c.fresh_const("n_nodes", INT)
        st["n"] = n
        v, j, u = z3.Ints("hv hj hu")
        c.assume(n >= 1)
        c.assume(z3.ForAll([j], z3.Implies(z3.And(j >= 0, j < n), POS(TOP(j)) == j)))                                                  # A2: the order lists each node once
        c.assume(z3.ForAll([v], IND(v) >= 0))
        c.assume(z3.ForAll([v, j], z3.Implies(z3.And(node(v), j >= 0, j < IND(v)),
                                              z3.And(node(PRED(v, j)), POS(PRED(v, j)) < POS(v), EDGE(PRED(v, j), v)))))              # predecessors come earlier and are edges
        c.assume(z3.ForAll([u, v], z3.And(FLOW(u, v) >= 0, FLOW(u, v) < INF)))                                                          # requires: non-negative, finite flow values
        c.assume(NINF < 0)
        c.assume(z3.Exists([v], z3.And(node(v), IND(v) > 0, OUTD(v) == 0)))                                                             # requires: the DAG has an edge (hence a sink with an in-edge)

        class EdgeView:
            def __getitem__(self, key):
                a, b = lift(key[0]), lift(key[1])
                class Attr:
                    def __getitem__(self, attr): return Sym(FLOW(a, b))
                return Attr()

        class G:
            edges = EdgeView()
            @staticmethod
            def in_degree(x): return Sym(IND(lift(x)))
            @staticmethod
            def out_degree(x): return Sym(OUTD(lift(x)))
            @staticmethod
            def predecessors(x):
                x = lift(x)
                return SymSeq(IND(x), lambda q: Sym(PRED(x, lift(q))), SInt, "predecessors")
        st["dicts"] = iter(["B", "maxInNeighbor"])
        try:
            bott, path = f(G, "flow")
        except KeyError:
            return              # the failed `pre` obligation above is the report
        if path is None:
            c.prove("post:no-path-is-reported-together-with-no-bottleneck", z3.BoolVal(bott is None), prop=P)
            m = st.get("mbs")
            c.prove("post:(None,None)-only-if-the-best-value-found-at-a-sink-is-0", z3.BoolVal(m is not None) if m is None else st["Bfin"].fn(lift(m)) == 0, prop=P)
            return
        p = path if isinstance(path, SymSeq) else None
        c.prove("post:the-path-is-a-list", z3.BoolVal(p is not None), prop=P)
        if p is None:
            return
        i, i2 = z3.Ints("pi pi2")
        at = lambda q: lift(p._at(q))
        b = lift(bott)
        c.prove("post:path-runs-from-a-node-without-in-edges-to-a-node-without-out-edges-along-edges-of-G",
                z3.And(p.n >= 1, IND(at(0)) == 0, OUTD(at(p.n - 1)) == 0, z3.ForAll([i], z3.Implies(z3.And(i >= 0, i < p.n - 1), EDGE(at(i), at(i + 1))))), prop=P)
        c.prove("post:every-edge-of-the-path-carries-at-least-the-reported-bottleneck,-which-is-positive",
                z3.And(b > 0, z3.ForAll([i], z3.Implies(z3.And(i >= 0, i < p.n - 1), FLOW(at(i), at(i + 1)) >= b))), prop=P)
        c.prove("post:the-path-visits-no-node-twice",
                z3.ForAll([i, i2], z3.Implies(z3.And(i >= 0, i < i2, i2 < p.n), at(i) != at(i2))), prop=P)

    def dict_():
        which = next(st["dicts"])
        return FnMap.empty(REAL if which == "B" else INT)

    def float_(x):
        if x == "inf":
            return Sym(INF)
        if x == "-inf":
            return Sym(NINF)
        from pyvc.rt import BUILTINS
        return BUILTINS["float"](x)

    class NX:
        @staticmethod
        def topological_sort(G):
            if hasattr(G, "topo"):
                return list(G.topo)                  # concrete instance
            return SymSeq(st["n"], lambda q: Sym(TOP(lift(q))), SInt, "topological_order")

    def rec_exit(ns, it=None):
        pass

    def inv_outer_rec(ns, seq, done):
        st["mbs"], st["Bfin"] = ns["maxBottleneckSink"], ns["B"]
        return inv_outer(ns, seq, done)

    hb = lambda old: FnMap.fresh("B", REAL)
    hm = lambda old: FnMap.fresh("maxInNeighbor", INT)
    loops = {0: dict(inv=inv_outer_rec, prop=P, havoc={"B": hb, "maxInNeighbor": hm, "maxBottleneckSink": lambda old: st["pick"]()}, keep=("u", "uBottleneck")),
             1: dict(inv=inv_inner, prop=P, on_entry=enter_inner, havoc={"B": hb, "maxInNeighbor": hm}, keep=("uBottleneck",)),
             2: dict(inv=inv_recover, prop=P, havoc={"reverse_path": lambda old: SymSeq.fresh("reverse_path", SInt)})}

    # ---- concrete instances: the same extracted body, run natively on small DAGs; here the MAXIMUM over all paths is decided by enumeration
    INSTANCES = [
        (3, [(0, 1, 2), (1, 2, 3)]), (3, [(0, 1, 2), (1, 2, 3), (0, 2, 1)]), (4, [(0, 1, 5), (0, 2, 3), (1, 3, 2), (2, 3, 3)]),
        (4, [(0, 1, 1), (0, 2, 1), (1, 3, 1), (2, 3, 1)]), (4, [(0, 2, 4), (1, 2, 6), (2, 3, 10)]), (3, [(0, 1, 0), (1, 2, 0)]),
        (4, [(0, 1, 0), (1, 3, 5), (0, 2, 2), (2, 3, 0)]), (5, [(0, 1, 3), (1, 2, 3), (2, 4, 1), (1, 3, 2), (3, 4, 2), (0, 3, 1)]),
        (5, [(0, 2, 7), (1, 2, 2), (2, 3, 4), (2, 4, 6)]), (4, [(0, 1, 2.5), (1, 2, 0.5), (1, 3, 2.0), (0, 3, 1.5)]), (2, [(0, 1, 4)]),
        (5, [(0, 1, 9), (1, 2, 1), (2, 3, 9), (3, 4, 9), (0, 3, 2)]),
    ]

    def instances():
        out = []
        for n, E in INSTANCES:
            def hc(c, f, n=n, E=E):
                flow = {(a, b): w for a, b, w in E}
                preds = {x: [a for a, b, w in E if b == x] for x in range(n)}
                succs = {x: [b for a, b, w in E if a == x] for x in range(n)}
                c.assume(INF > 1000)
                c.assume(NINF < 0)

                class EdgeView:
                    def __getitem__(self, key):
                        class Attr:
                            def __getitem__(self, attr): return flow[(int(key[0]), int(key[1]))]
                        return Attr()

                class G:
                    topo = list(range(n))
                    edges = EdgeView()
                    @staticmethod
                    def in_degree(x): return len(preds[_int(x)])
                    @staticmethod
                    def out_degree(x): return len(succs[_int(x)])
                    @staticmethod
                    def predecessors(x): return list(preds[_int(x)])
                st["dicts"] = iter(["B", "maxInNeighbor"])
                st["n"] = z3.IntVal(n)
                f.__globals__["__pv"].native_whiles, f.__globals__["__pv"]._ticks, f.__globals__["__pv"].native_budget = True, 0, 3000
                # all source-to-sink paths and the best bottleneck, by enumeration
                paths = []
                def ext(p):
                    if not succs[p[-1]]:
                        paths.append(p)
                    for b in succs[p[-1]]:
                        ext(p + [b])
                for x in range(n):
                    if not preds[x] and succs[x]:
                        ext([x])
                best = max(min(flow[(a, b)] for a, b in zip(p, p[1:])) for p in paths)
                bott, path = f(G, "flow")
                if path is None:
                    c.prove("instance:(None,None)-only-if-no-path-has-a-positive-bottleneck", z3.BoolVal(best == 0 and bott is None), prop=P)
                    return
                c.prove("instance:a-path-is-reported-only-if-some-path-has-a-positive-bottleneck", z3.BoolVal(best > 0), prop=P)
                seq = path if isinstance(path, SymSeq) else None
                if seq is None:
                    c.prove("instance:the-path-is-a-list", False, prop=P)
                    return
                ln = z3.simplify(seq.n).as_long()
                nodes = [z3.simplify(lift(seq._at(z3.IntVal(q)))) for q in range(ln)]
                c.prove("instance:the-path-is-a-source-to-sink-path-of-the-graph", z3.BoolVal(all(z3.is_int_value(x) for x in nodes) and [x.as_long() for x in nodes] in paths), prop=P)
                if all(z3.is_int_value(x) for x in nodes) and [x.as_long() for x in nodes] in paths:
                    p = [x.as_long() for x in nodes]
                    mine = min(flow[(a, b)] for a, b in zip(p, p[1:]))
                    c.prove("instance:reported-bottleneck=bottleneck-of-the-reported-path=maximum-over-all-source-to-sink-paths",
                            z3.And(lift(bott) == z3.RealVal(str(mine)), z3.BoolVal(mine == best)), prop=P)
            out.append(("DAG on %d nodes, edges %s" % (n, E), hc))
        return out

    def pick():
        # maxBottleneckSink after an arbitrary number of iterations: None or some node (path split)
        c = core.ctx()
        if c.decide(z3.Bool(c.name("no_sink_yet")), "sink-none"):
            return None
        return Sym(c.fresh_const("best_sink", INT))
    st["pick"] = pick
    return Unit(GU, "max_bottleneck_path", h, globs=dict(nx=NX, dict=dict_, float=float_, reversed=lambda s: s[::-1]), loops=loops, props=[P], instances=instances,
                literals=dict(list_of=lambda elts: SymSeq(z3.IntVal(len(elts)), (lambda e: (lambda j: e[0]))(elts), SInt, "reverse_path")),
                assumptions=["A2 networkx: topological_sort lists every node once, predecessors first; predecessors(v) / in_degree / out_degree describe the edges of G",
                             "requires: flow values are finite and non-negative; the DAG has at least one edge",
                             "float('inf') / float('-inf') are modelled as two real constants above / below every flow value (the code only compares and takes minima)",
                             "NOT proved: the reported value is the maximum over all source-to-sink paths (induction over paths); termination of the recovery loop"],
                abstractions=["nodes are integers; the dicts B / maxInNeighbor are functions with a written-keys predicate"])


def u_decompose():
    """stDAG.decompose_using_max_bottleneck: the peeling loop.
    ensures (conservation): for every edge  remaining(e) + sum of the weights of the reported paths through e = flow(e)  and remaining(e) >= 0 at every moment, hence
            the reported weighted paths never carry more than the flow of an edge; every reported path is a source-to-sink path of the working copy with a
            positive weight; one weight per path; the loop stops only when the callee reports no path.
    callee contract (max_bottleneck_path, proved above + requires): (None, None), or a node-simple path along edges whose remaining value is >= the
            reported positive bottleneck.
    NOT proved: that nothing remains at the end when the flow is conserving (then the weights add up to the flow exactly): a graph argument; termination."""
    st = {}
    PN, PL = z3.Function("reported_path_node", INT, INT, INT), z3.Function("reported_path_length", INT, INT)
    WG = z3.Function("reported_weight", INT, REAL)
    THR = z3.Function("weight_through_edge_of_the_first_paths", INT, INT, INT, REAL)      # (tail, head, number of paths counted)
    F0 = z3.Function("initial_flow", INT, INT, REAL)
    E0 = z3.Function("edge_of_the_working_copy", INT, INT, BOOL)

    def on_path(q, a, b):
        i = z3.Int("oi")
        return z3.Exists([i], z3.And(i >= 0, i < PL(q) - 1, PN(q, i) == a, PN(q, i + 1) == b))

    class Rem:
        def __init__(self, fn): self.fn = fn

    class TempG(Tracked):
        def __init__(self):
            self.rem = Rem(lambda a, b: F0(a, b))
            self.log = []
        def add_nodes_from(self, nodes): self.log.append("nodes")
        def add_edges_from(self, edges): self.log.append("edges")
        def remove_nodes_from(self, nodes): self.log.append("remove")
        def __getitem__(self, a):
            G, a = self, lift(a)
            class Row:
                def __getitem__(s2, b):
                    b = lift(b)
                    class Attr:
                        def __getitem__(s3, attr):
                            core.ctx().prove("pre:only-edges-of-the-working-copy-are-updated", E0(a, b), kind="pre")
                            return Sym(G.rem.fn(a, b))
                        def __setitem__(s3, attr, val):
                            old, v = G.rem.fn, lift(val)
                            object.__setattr__(G, "rem", Rem(lambda x, y: z3.If(z3.And(x == a, y == b), v, old(x, y))))
                    return Attr()
            return Row()

    class PathList:
        """`paths`: the reported paths, recorded in the ghost functions PN / PL"""
        def __init__(self, n): self.n = lift(n)
        def append(self, p):
            c, q, i = core.ctx(), self.n, z3.Int("pa")
            c.assume(z3.And(PL(q) == p.n, z3.ForAll([i], z3.Implies(z3.And(i >= 0, i < p.n), PN(q, i) == lift(p._at(i))))))      # names the new entry (index q is fresh)
            self.n = q + 1

    class WeightList:
        def __init__(self, n): self.n = lift(n)
        def append(self, w):
            c, q = core.ctx(), self.n
            c.assume(WG(q) == lift(w))
            self.n = q + 1

    def callee(G, attr):
        """CONTRACT of graphutils.max_bottleneck_path on the working copy (see u_max_bottleneck_path)"""
        c = core.ctx()
        if c.decide(z3.Bool(c.name("no_more_paths")), "callee-none"):
            return None, None
        b = c.fresh_const("bottleneck", REAL)
        p = SymSeq.fresh("path", SInt)
        i, i2 = z3.Ints("ki ki2")
        at = lambda q: lift(p._at(q))
        c.assume(z3.And(b > 0, p.n >= 1,
                        z3.ForAll([i], z3.Implies(z3.And(i >= 0, i < p.n - 1), z3.And(E0(at(i), at(i + 1)), G.rem.fn(at(i), at(i + 1)) >= b))),
                        z3.ForAll([i, i2], z3.Implies(z3.And(i >= 0, i < i2, i2 < p.n), at(i) != at(i2)))))
        st["calls"] = st.get("calls", 0) + 1
        return Sym(b), p

    def callee_or_real(G, attr):
        if st.get("concrete"):
            from flowpaths.utils import graphutils as real
            return real.max_bottleneck_path(G, attr)
        return callee(G, attr)

    class GUStub:
        max_bottleneck_path = staticmethod(callee_or_real)

    class NX:
        @staticmethod
        def DiGraph():
            if st.get("concrete"):
                import networkx
                return networkx.DiGraph()
            st["T"] = TempG()
            return st["T"]

    def conserved(T, n):
        a, b = z3.Ints("ca cb")
        return z3.ForAll([a, b], z3.And(T.rem.fn(a, b) + THR(a, b, n) == F0(a, b), T.rem.fn(a, b) >= 0))

    def inv_outer(ns, seq, done):
        T, P_, W_ = ns["temp_G"], ns["paths"], ns["weights"]
        q, i = z3.Ints("iq ii")
        return {"one-weight-per-path": z3.And(P_.n == W_.n, P_.n >= 0),
                "conservation:remaining+weight-through=flow-on-every-edge,-remaining>=0": conserved(T, P_.n),
                "reported-paths-run-along-edges-of-the-working-copy-with-positive-weights":
                    z3.ForAll([q], z3.Implies(z3.And(q >= 0, q < P_.n), z3.And(WG(q) > 0, PL(q) >= 1,
                              z3.ForAll([i], z3.Implies(z3.And(i >= 0, i < PL(q) - 1), E0(PN(q, i), PN(q, i + 1)))))))}

    def enter_inner(ns, it=None):
        if st.get("concrete"):
            return
        st["rem0"] = ns["temp_G"].rem.fn
        st["path"], st["b"] = ns["path"], lift(ns["bottleneck"])

    def inv_inner(ns, seq, done):
        T, p, bv, d = ns["temp_G"], st["path"], st["b"], lift(done)
        a, b, i = z3.Ints("na nb ni")
        at = lambda q: lift(p._at(q))
        hit = z3.Exists([i], z3.And(i >= 0, i < d, at(i) == a, at(i + 1) == b))
        return {"the-first-edges-of-the-path-so-far-lost-exactly-the-bottleneck,-nothing-else-changed":
                z3.ForAll([a, b], T.rem.fn(a, b) == st["rem0"](a, b) - z3.If(hit, bv, z3.RealVal(0)))}

    def h(c, f):
        class Me(Tracked):
            pass
        me = Me()
        a, b, q = z3.Ints("ha hb hq")
        c.assume(z3.ForAll([a, b], F0(a, b) >= 0))                                                                   # requires: non-negative values
        c.assume(z3.ForAll([a, b], THR(a, b, 0) == 0))
        c.assume(z3.ForAll([a, b, q], z3.Implies(q >= 0, THR(a, b, q + 1) == THR(a, b, q) + z3.If(on_path(q, a, b), WG(q), z3.RealVal(0)))))   # definition of the ghost sum
        me.nodes = lambda: "NODES"
        me.edges = lambda data=False: "EDGES"
        me.source, me.sink = "S", "T"
        st["lists"] = iter(["paths", "weights"])
        st["calls"] = 0
        res = f(me, "flow")
        T = st["T"]
        P_, W_ = res
        c.prove("post:the-working-copy-is-built-from-this-graph's-nodes-and-edges-minus-the-synthetic-source-and-sink", z3.BoolVal(T.log == ["nodes", "edges", "remove"]), prop=P)
        c.prove("post:one-weight-per-path", z3.And(P_.n == W_.n), prop=P)
        c.prove("post:conservation:the-reported-weights-through-an-edge-plus-what-remains-on-it-equal-its-flow;-nothing-negative-remains", conserved(T, P_.n), prop=P)
        c.prove("post:the-reported-weighted-paths-never-carry-more-than-the-flow-of-an-edge", z3.ForAll([a, b], THR(a, b, P_.n) <= F0(a, b)), prop=P)
        i = z3.Int("pi")
        c.prove("post:every-reported-path-runs-along-edges-of-the-working-copy-and-has-a-positive-weight",
                z3.ForAll([q], z3.Implies(z3.And(q >= 0, q < P_.n), z3.And(WG(q) > 0, z3.ForAll([i], z3.Implies(z3.And(i >= 0, i < PL(q) - 1), E0(PN(q, i), PN(q, i + 1))))))), prop=P)

    def list_():
        if st.get("concrete"):
            return []
        which = next(st["lists"])
        return PathList(0) if which == "paths" else WeightList(0)

    # ---- concrete instances: the real stDAG of a small conserving flow, the real callee, the loop run natively; here the FULL clause of C17 is decided
    FLOWS = [
        [("s", "a", 3), ("a", "t", 3)],
        [("s", "a", 2), ("s", "b", 1), ("a", "t", 2), ("b", "t", 1)],
        [("s", "a", 5), ("a", "b", 2), ("a", "c", 3), ("b", "t", 2), ("c", "t", 3)],
        [("s", "a", 4), ("s", "b", 3), ("a", "m", 4), ("b", "m", 3), ("m", "p", 5), ("m", "q", 2), ("p", "t", 5), ("q", "t", 2)],
        [("s", "a", 1), ("s", "b", 1), ("a", "b", 1), ("b", "t", 2)],
        [("s", "a", 2.5), ("a", "b", 1.0), ("a", "t", 1.5), ("b", "t", 1.0)],
        [("s", "a", 6), ("a", "b", 4), ("a", "c", 2), ("b", "c", 1), ("b", "t", 3), ("c", "t", 3)],
        [("s", "a", 0), ("a", "t", 0), ("s", "b", 2), ("b", "t", 2)],
    ]

    def instances():
        out = []
        for E in FLOWS:
            def hc(c, f, E=E):
                import networkx
                import flowpaths as fp
                g = networkx.DiGraph()
                for a, b, w in E:
                    g.add_edge(a, b, flow=w)
                me = fp.stDAG(g)
                st.update(concrete=True)
                f.__globals__["__pv"].native_whiles, f.__globals__["__pv"]._ticks, f.__globals__["__pv"].native_budget = True, 0, 3000
                try:
                    paths, weights = f(me, "flow")
                finally:
                    st.update(concrete=False)
                from fractions import Fraction
                thr = {}
                ok_paths = True
                for p, w in zip(paths, weights):
                    ok_paths = ok_paths and len(p) >= 2 and all(g.has_edge(a, b) for a, b in zip(p, p[1:])) and g.in_degree(p[0]) == 0 and g.out_degree(p[-1]) == 0 and w > 0
                    for a, b in zip(p, p[1:]):
                        thr[(a, b)] = thr.get((a, b), 0) + Fraction(w)
                c.prove("instance:one-positive-weight-per-path,-each-path-a-source-to-sink-path-of-the-graph-(no-synthetic-node)", z3.BoolVal(bool(ok_paths and len(paths) == len(weights))), prop=P)
                c.prove("instance:the-weights-of-the-paths-through-an-edge-add-up-to-its-flow,-on-every-edge",
                        z3.BoolVal(all(thr.get((a, b), 0) == Fraction(w) for a, b, w in E)), prop=P)
                c.prove("instance:the-caller's-flow-values-are-untouched", z3.BoolVal(all(g[a][b]["flow"] == w for a, b, w in E)), prop=P)
            out.append(("conserving flow %s" % (E,), hc))
        return out

    fresh_rem = lambda old: Rem((lambda f_: (lambda x, y: f_(x, y)))(z3.Function(core.ctx().name("remaining"), INT, INT, REAL)))
    loops = {0: dict(inv=inv_outer, prop=P, modifies=[(("temp_G", "rem"), fresh_rem)], keep=("i",),
                     havoc={"paths": lambda old: PathList(core.ctx().fresh_const("n_paths", INT)), "weights": lambda old: WeightList(core.ctx().fresh_const("n_weights", INT)),
                            "bottleneck": lambda old: old, "path": lambda old: old, "temp_G": lambda old: old}),
             1: dict(inv=inv_inner, prop=P, on_entry=enter_inner, modifies=[(("temp_G", "rem"), fresh_rem)], havoc={"temp_G": lambda old: old})}
    return Unit("flowpaths/stdag.py", "stDAG.decompose_using_max_bottleneck", h, globs=dict(nx=NX, graphutils=GUStub, list=list_), loops=loops, props=[P], instances=instances,
                callee_contracts=["graphutils.max_bottleneck_path: (None, None) or a node-simple path along edges of remaining value >= the positive bottleneck (own unit; the requires "
                                  "'non-negative values' is re-established by the conservation invariant)"],
                assumptions=["networkx: the working copy holds the nodes and edges (with attributes) of this graph minus the synthetic source and sink",
                             "NOT proved: for a conserving flow nothing remains when no path is left (then the weights add up to the flow on every edge); termination"],
                abstractions=["nodes are integers", "the remaining values are a function of the edge; the reported paths / weights are recorded in ghost functions; the weight through an edge is a ghost prefix sum"])


def all_units():
    return [u_max_bottleneck_path(), u_decompose()]
