"""Sidecar contracts for C05 / C10 (proof pieces): kFlowDecomp._get_solution_with_greedy accepts the greedy (max-bottleneck) decomposition as
THE solution only when it is admissible for the model: at most k paths, every sub-path constraint covered to the requested amount (exact
comparison with length x fraction, no truncation), every weight exactly representable in the requested type; the stored solution then has
exactly k paths / k weights: the greedy ones followed by zero-weight padding.  In every other case nothing is stored and nothing is marked solved
(the MILP route decides).  That is what makes `optimize_with_greedy` a pure shortcut."""
import z3
from pyvc import core
from pyvc.core import Sym, lift, INT, REAL, BOOL, Unsupported
from pyvc.heap import SymSeq, SInt, SReal
from pyvc.rt import Tracked, BUILTINS
from pyvc.unit import Unit, NoopLogger

P = "C05,C10"
F = "flowpaths/kflowdecomp.py"


class UtilsStub:
    logger = NoopLogger()


class TimeStub:
    @staticmethod
    def perf_counter():
        return 0.0


def u_greedy():
    OCC = z3.Function("max_occurrence_of_constraint", INT, REAL)     # CONTRACT of graphutils.max_occurrence (proved under C10): the most (length of) edges of constraint j inside one greedy path
    LEN = z3.Function("constraint_len", INT, INT)
    W = z3.Function("greedy_weight", INT, REAL)
    PID = z3.Function("greedy_path_id", INT, INT)

    CEU, CEV = z3.Function("constraint_edge_tail", INT, INT), z3.Function("constraint_edge_head", INT, INT)
    ELEN = z3.Function("edge_length_attribute", INT, INT, REAL)

    class Sub(list):
        """one sub-path constraint: a (well-formed) list of edges, represented by ONE arbitrary edge of it; its identity j and its length matter here"""
        def __init__(self, j):
            j = lift(j)
            super().__init__([("constraint_edge_tail", "constraint_edge_head")])       # an arbitrary edge of the constraint (opaque names)
            self.j = j

    def mk(wt):
        st = {}

        def len_(x):
            if isinstance(x, Sub):
                return Sym(LEN(x.j))
            return BUILTINS["len"](x)

        class GU:
            @staticmethod
            def max_occurrence(seq, paths_in_DAG, edge_lengths={}):
                if not isinstance(seq, Sub):
                    raise Unsupported("max_occurrence of something else than a constraint")
                core.ctx().prove("pre:max_occurrence-is-asked-about-the-greedy-paths", z3.BoolVal(paths_in_DAG is st["paths"]), kind="pre")
                # coverage is counted in EDGES in this contract (no length coverage requested): every constraint edge must count 1, whatever
                # length attribute the graph carries; max_occurrence weighs an edge by edge_lengths.get(edge, 1)
                ok = z3.BoolVal(True)
                for key, val in (edge_lengths or {}).items():
                    ok = z3.And(ok, lift(val) == 1)
                core.ctx().prove("pre:with-edge-count-coverage-max_occurrence-counts-every-constraint-edge-as-1-(also-when-a-length-attribute-is-set)", ok, prop=P, kind="pre")
                return Sym(OCC(seq.j))

        def inv(ns, seq, done):
            j = z3.Int("cj")
            return {"every-constraint-so-far-is-covered-to-the-requested-amount":
                    z3.ForAll([j], z3.Implies(z3.And(j >= 0, j < lift(done)), OCC(j) >= z3.ToReal(LEN(j)) * st["cov"]))}

        def h(c, f):
            class G:
                def decompose_using_max_bottleneck(self, attr):
                    return (st["paths"], st["weights"])
                def has_edge(self, u, v): return True
                def __getitem__(self, u):
                    class Row:
                        def __getitem__(s2, v):
                            class Data:
                                def get(s3, attr, default=None):
                                    return default if attr is None else Sym(z3.Real("length_attribute_of_the_constraint_edge"))      # any value
                            return Data()
                    return Row()

            class Me(Tracked):
                pass
            me = Me()
            n, m, k = c.fresh_const("n_greedy_paths", INT), c.fresh_const("n_constraints", INT), c.fresh_const("k", INT)
            cov = c.fresh_const("coverage", REAL)
            c.assume(z3.And(n >= 1, m >= 0, k >= 1, cov > 0, cov <= 1))
            j = z3.Int("hj")
            c.assume(z3.ForAll([j], z3.And(LEN(j) >= 1, OCC(j) >= 0)))
            st["cov"] = cov
            st["paths"] = SymSeq(n, lambda q: Sym(PID(lift(q))), SInt, "greedy_paths")
            st["weights"] = SymSeq(n, lambda q: Sym(W(lift(q))), SReal, "greedy_weights")
            me.G = G()
            me.flow_attr, me.flow_attr_origin = "flow", "edge"
            me.length_attr = "length" if c.decide(z3.Bool("a_length_attribute_is_set"), "length-attr") else None
            me.k = Sym(k)
            me.subpath_constraints = SymSeq(m, lambda q: Sub(q), None, "constraints")
            me.subpath_constraints_coverage = Sym(cov)
            me.subpath_constraints_coverage_length = None
            me.weight_type = BUILTINS["int"] if wt is int else BUILTINS["float"]
            me._solution = None
            me.solved = False
            def set_solved(): me.solved = True
            me.set_solved = set_solved
            r = f(me)
            q = z3.Int("pq")
            covered = z3.ForAll([q], z3.Implies(z3.And(q >= 0, q < m), OCC(q) >= z3.ToReal(LEN(q)) * cov))
            exact = z3.ForAll([q], z3.Implies(z3.And(q >= 0, q < n), z3.ToReal(lift(BUILTINS["int"](Sym(W(q))))) == W(q))) if wt is int else z3.BoolVal(True)   # int(): truncation toward zero, as the executor encodes it
            if r is True:
                c.prove("post:accepted-only-with-at-most-k-greedy-paths", n <= k, prop=P)
                c.prove("post:accepted-only-if-every-constraint-is-covered-to-length-x-fraction-(no-truncation)", covered, prop=P)
                c.prove("post:accepted-only-if-every-weight-is-exactly-representable-in-the-weight-type", exact, prop=P)
                c.prove("post:accepted=>marked-solved-and-a-solution-stored", z3.BoolVal(me.solved is True and isinstance(me._solution, dict)), prop=P)
                sol = me._solution
                ps, ws = sol["paths"], sol["weights"]
                ps = ps if isinstance(ps, SymSeq) else ps.to_seq()
                ws = ws if isinstance(ws, SymSeq) else ws.to_seq()
                c.prove("post:exactly-k-paths-and-k-weights", z3.And(ps.n == k, ws.n == k), prop=P)
                guard = z3.And(q >= 0, q < k)
                with c.quantified(guard):
                    wq, pq = lift(ws._at(q)), lift(ps._at(q))
                if wq.sort() == INT:
                    wq = z3.ToReal(wq)
                c.prove("post:the-greedy-paths-and-weights-first,-zero-weight-padding-after",
                        z3.ForAll([q], z3.Implies(guard, z3.And(z3.If(q < n, z3.And(wq == W(q), pq == PID(q)), wq == 0)))), prop=P)
            elif r is False:
                c.prove("post:declined=>nothing-stored-and-not-marked-solved", z3.BoolVal(me.solved is False and me._solution is None), prop=P)
                c.prove("post:declined-only-for-a-reason", z3.Or(n > k, z3.Not(covered), z3.Not(exact)), prop=P)
            else:
                c.prove("post:returns-a-bool", z3.BoolVal(False), prop=P)

        loops = {0: dict(inv=inv, prop=P)}
        return Unit(F, "kFlowDecomp._get_solution_with_greedy", h, globs=dict(utils=UtilsStub, time=TimeStub, gu=GU, len=len_), loops={0: dict(loops[0], keep=("edge_lengths", "constraint_length", "coverage_fraction"))},
                    props=["C05", "C10"], name="%s:kFlowDecomp._get_solution_with_greedy[weight_type=%s]" % (F, wt.__name__),
                    callee_contracts=["graphutils.max_occurrence (C10)", "stDAG.decompose_using_max_bottleneck (trusted: returns paths and weights of equal length)"],
                    assumptions=["constraints are well-formed lists of edges of the graph (the malformed branch returns False before anything is stored; validated by the constructor, C19)",
                                 "coverage is by number of edges (subpath_constraints_coverage_length is None)"])
    return [mk(int), mk(float)]


def all_units():
    return u_greedy()
