"""Sidecar contracts for C13 — solved means proven optimal; inconclusive solver runs never yield an answer.

Oracle: STATUS(k) is what the solver answers for the model with parameter k (uninterpreted: one proof covers every
fault position / time-out position), EXT(k) whether a greedy / external solution exists for k.
"""
import z3
from pyvc import core
from pyvc.core import Sym, lift, INT, REAL, BOOL, STR, Unsupported
from pyvc.heap import SymSeq, SymMap, SInt, SReal, LazyMap
from pyvc.rt import Tracked, TrackedDict, len_
from pyvc.unit import Unit
from contracts.stubs import (STATUS, EXT, OPT, INF, A_SOLVER, UtilsStub, TimeStub, OptDict, CopyStub, SubSolver, SubModel,
                             GivenWeightsModel, GraphStub, ModelSelf, factory, all_before_infeasible, Poisoned, DataRead)

P = "C13"


def _real_consts():
    """constants of other repo modules that the verified functions compare against (read from the real tree: a change there is seen)"""
    import importlib
    sw = importlib.import_module("flowpaths.utils.solverwrapper")
    return sw.SolverWrapper.infeasible_status


class AnyDefaults:
    """class-level option defaults (MinFlowDecomp.optimize_with_given_weights, ...): arbitrary booleans"""

    def __init__(self, name):
        object.__setattr__(self, "_n", name)
        object.__setattr__(self, "_m", {})

    def __getattr__(self, k):
        m = object.__getattribute__(self, "_m")
        if k not in m:
            m[k] = Sym(core.ctx().fresh_const("%s.%s" % (object.__getattribute__(self, "_n"), k), BOOL))
        return m[k]


class _Mod:
    def __init__(self, **kw):
        self.__dict__.update(kw)


def _sw_mod():
    class SolverWrapper:
        infeasible_status = _real_consts()
    return _Mod(SolverWrapper=SolverWrapper)


# ---------------------------------------------------------------------------------------------
# Min* search loops

def _min_loop_unit(relpath, cls, submod_name, subcls_name, route_key, with_gw, modifies=(), range_prop=None, elapsed_cut=False):
    st = {}

    def gw_extra(me):
        gw = me._given_weights_model
        if gw is None:
            return None
        return lambda j: z3.Not(z3.And(gw.solved.t, gw.n == j))

    def inv(ns, seq, done):
        me = ns["self"]
        lo = lift(seq.lo)
        solved = me._is_solved
        return {"every-smaller-k-was-proven-infeasible": all_before_infeasible(lo, lo + lift(done), gw_extra(me)),
                "not-yet-marked-solved": z3.Not(lift(solved)) if isinstance(solved, Sym) else (solved is False)}

    def on_entry(ns):
        me = ns["self"]

    def iterable(it):
        return it

    def h(c, f):
        me = ModelSelf(route_key)
        st["me"] = me
        if with_gw:
            # _solve_with_given_weights may or may not leave a (solved or unsolved) given-weights model behind
            def swgw():
                if c.decide(z3.Bool(c.name("given_weights_model_exists")), "gw-exists"):
                    me._given_weights_model = GivenWeightsModel(route_key)
            me._solve_with_given_weights = swgw
            if c.decide(z3.Bool(c.name("gw_model_preexisting")), "gw-pre"):
                me._given_weights_model = GivenWeightsModel(route_key)
        lb, m = me.lb.t, me.G.m.t
        old_clock = Sym(c.fresh_const("clock_of_an_earlier_solve", REAL))
        me.solve_time_start = old_clock if c.decide(z3.Bool(c.name("solved_before")), "second-solve") else None
        r = f(me)
        c.prove("post:solve-restarts-its-wall-clock(repeated solve() is not charged the time since an earlier solve)", me.solve_time_start is not old_clock and me.solve_time_start is not None, prop="C18")
        if not isinstance(r, bool):
            c.prove("post:returns-a-bool", False, kind="post")
            return
        solved = me._is_solved
        if r:
            model = getattr(me, "fd_model", None) or getattr(me, "model", None)
            c.prove("post:True=>marked-solved", solved is True, prop=P)
            if isinstance(model, GivenWeightsModel):
                kstar = model.n
                accepted = model.solved.t
            else:
                kstar = lift(model.k)
                accepted = z3.Or(EXT(kstar), STATUS(kstar) == OPT)
            c.prove("post:True=>accepted-model-was-proven-optimal-for-its-k", accepted, prop=P)
            c.prove("post:True=>every-smaller-k-was-proven-infeasible(no-inconclusive-k-skipped)",
                    all_before_infeasible(lb, kstar, gw_extra(me)), prop=P)
            c.prove("post:True=>k*-within-the-searched-range", z3.And(kstar >= lb), kind="post")
        else:
            c.prove("post:False=>not-marked-solved", solved is False, prop=P)
            c.prove("post:False=>no-solution-stored", me._solution is None, prop=P)

    glob = dict(utils=UtilsStub, time=TimeStub, copy=CopyStub, sw=_sw_mod())
    glob[cls] = AnyDefaults(cls)
    me_holder = {}

    def fac(**kw):
        me = st["me"]
        mdl = SubModel(kw.get("k"), route_key, kw)
        me.created.append(mdl)
        return mdl
    glob[submod_name] = _Mod(**{subcls_name: fac})
    spec = dict(inv=inv, prop={"every-smaller-k-was-proven-infeasible": P, "not-yet-marked-solved": P},
                modifies=list(modifies))
    if range_prop:
        def on_entry2(ns, it):
            # range clause (C03/C04/C09): every k from the lower bound up to a number of routes that always suffices is tried.
            # A decomposition / cover with at most |E| - |V| + 2 routes always exists, so the range must reach that value.
            me = ns["self"]
            from pyvc.heap import SymRange
            c = core.ctx()
            if isinstance(it, SymRange):
                c.prove("range:search-starts-at-the-lower-bound", lift(it.lo) == me.lb.t, prop=range_prop, kind="pre")
                # over the vocabulary the loop bound uses (number of edges, number of nodes) k = |E| is the only bound that always suffices:
                # a graph made of |E| disjoint edges needs |E| routes (a tighter bound such as |E|-|V|+2 is wrong for several sources/sinks)
                c.prove("range:search-reaches-k=number-of-edges", lift(it.hi) >= me.G.m.t + 1, prop=range_prop, kind="pre")
            else:
                c.prove("range:search-range-is-symbolic", False, kind="pre")
        spec["on_entry"] = on_entry2
    return Unit(relpath, cls + ".solve", h, globs=glob, loops={0: spec}, props=[P, "C18"] + ([range_prop] if range_prop else []), assumptions=[A_SOLVER],
                callee_contracts=["%s.solve/is_solved/get_solution (AbstractPathModelDAG/AbstractWalkModelDiGraph.solve contract)" % subcls_name,
                                  "SolverWrapper.get_model_status", "set_solved", "get_lowerbound_k (returns an int)"])


def u_min_loops():
    return [
        _min_loop_unit("flowpaths/minflowdecomp.py", "MinFlowDecomp", "kflowdecomp", "kFlowDecomp", "paths", True, range_prop="C03"),
        _min_loop_unit("flowpaths/minflowdecompcycles.py", "MinFlowDecompCycles", "kflowdecompcycles", "kFlowDecompCycles", "walks", True, range_prop="C04",
                       modifies=[(("self", "solve_statistics"), lambda old: TrackedDict()), (("self", "solve_time_ilp_total"), None)]),
        _min_loop_unit("flowpaths/minpathcover.py", "MinPathCover", "kpathcover", "kPathCover", "paths", False, range_prop="C09"),
        _min_loop_unit("flowpaths/minpathcovercycles.py", "MinPathCoverCycles", "kpathcovercycles", "kPathCoverCycles", "walks", False, range_prop="C09"),
    ]


# ---------------------------------------------------------------------------------------------
# MinGenSet.solve

def u_mingenset_solve():
    def inv(ns, seq, done):
        me = ns["self"]
        lo = lift(seq.lo)
        j = z3.Int("jg")
        s = me._is_solved
        return {"every-smaller-k-was-proven-infeasible": z3.ForAll([j], z3.Implies(z3.And(j >= lo, j < lo + lift(done)), STATUS(j) == INF)),
                "not-yet-marked-solved": (s is False) if not isinstance(s, Sym) else z3.Not(s.t)}

    class Me(Tracked):
        def __init__(self):
            c = core.ctx()
            self.lowerbound = Sym(c.fresh_const("lowerbound", INT))
            self.initial_numbers = SymSeq.fresh("initial_numbers", SInt)
            self._is_solved = False
            self._solution = None
            self.solve_statistics = {}
            self.weight_type = float
            self.genset_vars = "GV"
            self.solver = None
            self.partition_constraints = None

        def _create_solver(self, k):
            self.solver = SubSolver(k)

    def h(c, f):
        me = Me()
        c.assume(me.lowerbound.t >= 1)
        r = f(me)
        lo = me.lowerbound.t
        j = z3.Int("jg2")
        if r is True:
            kstar = lift(me.solve_statistics["num_elements"])
            c.prove("post:True=>marked-solved", me._is_solved is True, prop=P)
            c.prove("post:True=>optimal-at-k*", STATUS(kstar) == OPT, prop=P)
            c.prove("post:True=>every-smaller-k-was-proven-infeasible(no-inconclusive-k-skipped)",
                    z3.ForAll([j], z3.Implies(z3.And(j >= lo, j < kstar), STATUS(j) == INF)), prop=P)
        else:
            c.prove("post:False=>not-marked-solved", me._is_solved is False, prop=P)
            c.prove("post:False=>no-solution-stored", me._solution is None, prop=P)

    def sorted_(x):
        return "SORTED"
    def on_entry(ns, it):
        # range clause (C15): the search starts at the lower bound and reaches len(numbers)+1, a size for which a generating set always exists
        from pyvc.heap import SymRange
        me = ns["self"]
        c = core.ctx()
        if isinstance(it, SymRange):
            c.prove("range:search-starts-at-the-lower-bound", lift(it.lo) == me.lowerbound.t, prop="C15", kind="pre")
            c.prove("range:search-reaches-len(numbers)+1", lift(it.hi) >= me.initial_numbers.n + 2, prop="C15", kind="pre")
        else:
            c.prove("range:search-range-is-symbolic", False, kind="pre")
    loops = {0: dict(inv=inv, on_entry=on_entry, prop={"every-smaller-k-was-proven-infeasible": P, "not-yet-marked-solved": P},
                     modifies=[(("self", "solve_statistics"), lambda old: {}), (("self", "solver"), lambda old: old)],
                     keep=("genset_sol",))}
    return Unit("flowpaths/mingenset.py", "MinGenSet.solve", h, globs=dict(utils=UtilsStub, time=TimeStub, sorted=sorted_, sw=_sw_mod()), loops=loops, props=[P, "C15"],
                assumptions=[A_SOLVER], callee_contracts=["MinGenSet._create_solver (installs a fresh solver for k)", "SolverWrapper.optimize/get_model_status/get_values"])


# ---------------------------------------------------------------------------------------------
# abstract solve / check_is_solved

def _abstract_solve(relpath, cls, walk):
    def h(c, f):
        class Me(Tracked):
            pass
        me = Me()
        status = Sym(z3.String("status"))
        me.solver = SubSolver(0, status=status)
        me.solve_statistics = TrackedDict()
        me.k = Sym(z3.Int("k"))
        me._is_solved = Sym(z3.Bool("solved_before"))
        me.is_solved = lambda: me._is_solved
        me.solve_time_start = Sym(z3.Real("t0"))
        me.G = GraphStub()
        me.get_objective_value = lambda: Sym(z3.Real("obj"))
        ext = None
        if not walk:
            if c.decide(z3.Bool("has_external_solution"), "ext"):
                ext = ["p"]
            me.external_solution_paths = ext
        r = f(me)
        want = z3.BoolVal(True) if ext is not None else (status.t == OPT)
        s = me._is_solved
        st = z3.BoolVal(s) if isinstance(s, bool) else lift(s)
        c.prove("post:is_solved<=>(status=kOptimal or external solution)", st == want, prop=P)
        c.prove("post:return-value=is_solved", (z3.BoolVal(r) if isinstance(r, bool) else lift(r)) == st, prop=P)
        if ext is None:
            c.prove("post:every-solve()-runs-the-solver-on-the-current-model-(exactly-once),-whatever-was-solved-before", me.solver.optimized == 1, prop=P)
    return Unit(relpath, cls + ".solve", h, globs=dict(utils=UtilsStub, time=TimeStub), props=[P], assumptions=[A_SOLVER],
                callee_contracts=["SolverWrapper.optimize", "SolverWrapper.get_model_status"])


def _check_is_solved(relpath, qual):
    def h(c, f):
        class Me(Tracked):
            pass
        me = Me()
        solved = Sym(z3.Bool("solved"))
        me._is_solved = solved
        me.is_solved = lambda: me._is_solved
        me.solver = _Mod(logger=UtilsStub.logger)
        try:
            f(me)
            c.prove("post:returns-normally-only-if-solved", solved.t, prop=P)
        except Exception:
            c.prove("xpost:raises-only-if-not-solved", z3.Not(solved.t), prop=P, kind="xpost")
    return Unit(relpath, qual, h, globs=dict(utils=UtilsStub), props=[P])


def u_abstract():
    return [_abstract_solve("flowpaths/abstractpathmodeldag.py", "AbstractPathModelDAG", False),
            _abstract_solve("flowpaths/abstractwalkmodeldigraph.py", "AbstractWalkModelDiGraph", True),
            _check_is_solved("flowpaths/abstractpathmodeldag.py", "AbstractPathModelDAG.check_is_solved"),
            _check_is_solved("flowpaths/abstractwalkmodeldigraph.py", "AbstractWalkModelDiGraph.check_is_solved"),
            _check_is_solved("flowpaths/mingenset.py", "MinGenSet.check_is_solved"),
            _check_is_solved("flowpaths/minsetcover.py", "MinSetCover.check_is_solved"),
            _check_is_solved("flowpaths/minerrorflow.py", "MinErrorFlow._check_is_solved")]


# ---------------------------------------------------------------------------------------------
# getters: on a model that is not solved (and has no cached solution) every getter raises before it reads any data

GETTERS = [
    ("flowpaths/kflowdecomp.py", "kFlowDecomp", ["get_solution", "get_objective_value"]),
    ("flowpaths/kleastabserrors.py", "kLeastAbsErrors", ["get_solution", "get_objective_value"]),
    ("flowpaths/kminpatherror.py", "kMinPathError", ["get_solution", "get_objective_value"]),
    ("flowpaths/kpathcover.py", "kPathCover", ["get_solution", "get_objective_value"]),
    ("flowpaths/kflowdecompcycles.py", "kFlowDecompCycles", ["get_solution", "get_objective_value"]),
    ("flowpaths/kleastabserrorscycles.py", "kLeastAbsErrorsCycles", ["get_solution", "get_objective_value"]),
    ("flowpaths/kminpatherrorcycles.py", "kMinPathErrorCycles", ["get_solution", "get_objective_value"]),
    ("flowpaths/kpathcovercycles.py", "kPathCoverCycles", ["get_solution", "get_objective_value"]),
    ("flowpaths/minflowdecomp.py", "MinFlowDecomp", ["get_solution", "get_objective_value"]),
    ("flowpaths/minflowdecompcycles.py", "MinFlowDecompCycles", ["get_solution", "get_objective_value"]),
    ("flowpaths/minpathcover.py", "MinPathCover", ["get_solution", "get_objective_value"]),
    ("flowpaths/minpathcovercycles.py", "MinPathCoverCycles", ["get_solution", "get_objective_value"]),
    ("flowpaths/numpathsoptimization.py", "NumPathsOptimization", ["get_solution", "get_objective_value"]),
    ("flowpaths/mingenset.py", "MinGenSet", ["get_solution"]),
    ("flowpaths/minsetcover.py", "MinSetCover", ["get_solution"]),
    ("flowpaths/minerrorflow.py", "MinErrorFlow", ["get_solution", "get_corrected_graph", "get_objective_value"]),
]


def _getter_unit(relpath, cls, meth):
    def h(c, f):
        def chk():
            raise Exception("Model not solved.")

        def is_solved():
            return False
        me = Poisoned(_is_solved=False, _solution=None, is_solved=is_solved, check_is_solved=chk, _check_is_solved=chk)
        # sibling getters delegate to get_solution: give them the real contract (raises when unsolved)
        if meth != "get_solution":
            object.__getattribute__(me, "_allowed")["get_solution"] = lambda *a, **k: chk()
        outcome = None
        try:
            r = f(me)
            outcome = "returned %r" % (r,)
        except DataRead as e:
            outcome = "read self.%s before checking is_solved" % (e.args[0],)
        except Exception as e:
            outcome = "raised" if "not solved" in str(e).lower() else "raised %s: %s" % (type(e).__name__, e)
        c.prove("xpost:unsolved-and-no-cached-solution=>raises-before-reading-data", outcome == "raised", prop=P, kind="xpost",
                info=dict(outcome=outcome))
        c.prove("xpost:nothing-written-on-the-error-path", not object.__getattribute__(me, "_written"), prop=P, kind="xpost")
    return Unit(relpath, "%s.%s" % (cls, meth), h, globs=dict(utils=UtilsStub), props=[P],
                abstractions=["concrete pre-state {_is_solved: False, _solution: None}; every other attribute of self is poisoned, so the single "
                              "execution is representative of all such states"])


def u_getters():
    return [_getter_unit(r, c_, m) for r, c_, ms in GETTERS for m in ms]


# ---------------------------------------------------------------------------------------------
# NumPathsOptimization.solve: only a model that was itself proven optimal for its k is returned

def u_numpaths():
    def mk(variant):
        def inv(ns, seq, done):
            return {"solve_status-still-unset": ns.get("solve_status") is None}

        def h(c, f):
            me = ModelSelf("paths")
            me.model_type = lambda **kw: SubModel(kw.get("k"), "paths", kw)
            me.kwargs = {}
            me.min_num_paths = Sym(z3.Int("min_num_paths"))
            me.max_num_paths = Sym(z3.Int("max_num_paths"))
            me.stop_on_first_feasible = Sym(z3.Bool("stop_on_first_feasible")) if variant == "first" else False
            me.stop_on_delta_abs = Sym(z3.Real("delta_abs")) if variant == "abs" else None
            me.stop_on_delta_rel = Sym(z3.Real("delta_rel")) if variant == "rel" else None
            me.lowerbound_k = None
            try:
                r = f(me)
            except ZeroDivisionError:
                c.prove("xpost:exception=>not-marked-solved", me._is_solved is False, prop=P, kind="xpost")
                return
            if r is True:
                mdl = me.model
                s = mdl._solved
                c.prove("post:True=>returned-model-was-itself-proven-optimal-for-its-k", lift(s) if isinstance(s, Sym) else bool(s), prop=P)
                c.prove("post:True=>marked-solved", me._is_solved is True, prop=P)
            else:
                c.prove("post:False=>not-marked-solved", me._is_solved is False, prop=P)
                c.prove("post:False=>no-solution-stored", me._solution is None, prop=P)

        def prev_havoc(old):
            c = core.ctx()
            if c.decide(z3.Bool(c.name("prev_objective_is_None")), "prev-none"):
                return None
            return Sym(c.fresh_const("prev_objective", REAL))
        loops = {0: dict(inv=inv, prop={"solve_status-still-unset": P},
                         havoc={"solve_status": lambda old: None, "previous_solution_objective_value": prev_havoc},
                         keep=("model", "current_solution_objective_value"))}
        import importlib
        real = importlib.import_module("flowpaths.numpathsoptimization").NumPathsOptimization

        class NPO:
            solved_status_name = real.solved_status_name
            timeout_status_name = real.timeout_status_name
            infeasible_status_name = real.infeasible_status_name
            unbounded_status_name = real.unbounded_status_name
        return Unit("flowpaths/numpathsoptimization.py", "NumPathsOptimization.solve", h, globs=dict(utils=UtilsStub, time=TimeStub, NumPathsOptimization=NPO, id=lambda o: 0),
                    loops=loops, props=[P], name="flowpaths/numpathsoptimization.py:NumPathsOptimization.solve[%s]" % variant, assumptions=[A_SOLVER])
    return [mk(v) for v in ("first", "abs", "rel")]


# ---------------------------------------------------------------------------------------------
# MinErrorFlow.solve (two stages) and MinSetCover.solve

def u_minerrorflow_solve():
    def mk(eps):
        def h(c, f):
            class Me(Tracked):
                pass
            me = Me()
            s1, s2 = Sym(z3.String("status_stage1")), Sym(z3.String("status_stage2"))
            me.solver = SubSolver(1, status=s1)
            me.solve_statistics = TrackedDict()
            me.G = GraphStub()
            me._is_solved = False
            me._solution = None
            me.flow_attr = "flow"
            me.different_flow_values_epsilon = Sym(z3.Real("epsilon")) if eps else None
            stage = {"n": 1}

            def create_solver():
                stage["n"] = 2
                me.solver = SubSolver(2, status=s2)
            me._create_solver = create_solver
            me._encode_flow = lambda: None
            me._encode_different_flow_values_and_objective = lambda **kw: None

            class Edges:
                def edges(self):
                    from pyvc.heap import STuple
                    return SymSeq.fresh("edges", STuple(SInt, SInt))
            me.original_graph_copy = Edges()

            def get_corrected_graph():
                # CONTRACT of get_corrected_graph / get_solution: requires is_solved(); ensures the solution is cached in self._solution
                c.prove("pre:get_corrected_graph-requires-is_solved", me._is_solved is True, kind="pre")
                me._solution = "<solution of stage %d>" % stage["n"]
                return "<graph>"
            me.get_corrected_graph = get_corrected_graph
            r = f(me)
            last = s2 if stage["n"] == 2 else s1
            if r is True:
                c.prove("post:True=>marked-solved", me._is_solved is True, prop=P)
                c.prove("post:True=>the-last-solver-run-was-optimal", last.t == OPT, prop=P)
                c.prove("post:True=>no-stale-solution-cached-from-an-earlier-stage", me._solution is None or stage["n"] == 1 or str(me._solution).endswith("stage 2>"), prop=P)
            else:
                c.prove("post:False=>not-marked-solved", me._is_solved is False, prop=P)
                c.prove("post:False=>no-solution-stored(get_solution cannot return data)", me._solution is None, prop=P)

        class OpaqueSet:
            pass

        def set_(x=()):
            return OpaqueSet()

        def len2(x):
            if isinstance(x, OpaqueSet):
                v = core.ctx().fresh_const("ndistinct", INT)
                core.ctx().assume(v >= 0)
                return Sym(v)
            return len_(x)
        return Unit("flowpaths/minerrorflow.py", "MinErrorFlow.solve", h, globs=dict(utils=UtilsStub, time=TimeStub, set=set_, len=len2), props=[P],
                    name="flowpaths/minerrorflow.py:MinErrorFlow.solve[%s]" % ("epsilon" if eps else "no-epsilon"), assumptions=[A_SOLVER],
                    callee_contracts=["MinErrorFlow.get_corrected_graph/get_solution (requires solved; caches self._solution)", "MinErrorFlow._create_solver"])
    return [mk(False), mk(True)]


def u_minsetcover_solve():
    def h(c, f):
        class Me(Tracked):
            pass
        me = Me()
        s1 = Sym(z3.String("status"))
        me.solver = SubSolver(1, status=s1)
        me.subsets = SymSeq.fresh("subsets", SInt)
        me.subset_vars = "SV"
        me._is_solved = None
        me._solution = None
        me.solve_statistics = {}
        r = f(me)
        if r is True:
            c.prove("post:True=>marked-solved", me._is_solved is True, prop=P)
            c.prove("post:True=>solver-status-optimal", s1.t == OPT, prop=P)
        else:
            c.prove("post:False=>not-marked-solved", me._is_solved is not True, prop=P)
            c.prove("post:False=>no-solution-stored", me._solution is None, prop=P)
    return Unit("flowpaths/minsetcover.py", "MinSetCover.solve", h, globs=dict(utils=UtilsStub, time=TimeStub), props=[P], assumptions=[A_SOLVER])


# ---------------------------------------------------------------------------------------------
# the min-gen-set lower bound helper must fall through (not exit the process) when MinGenSet is not solved

def u_lowerbound_mgs():
    def mk(relpath, cls):
        cell = {}

        def h(c, f):
            me = ModelSelf("paths")
            me._lowerbound_k = None
            me._generating_set = None
            me.w_max = Sym(z3.Int("w_max"))
            me._get_source_flow = lambda: Sym(z3.Int("source_flow"))
            me._get_partition_constraints_for_min_gen_set = lambda **kw: None
            me.edges_to_ignore = SymSeq.fresh("edges_to_ignore", SInt)          # the bound is skipped when something is ignored
            n_ign = me.edges_to_ignore.n

            class Edges:
                def __call__(self):
                    return []

                def __getitem__(self, e):
                    return {}
            me.G.edges = Edges()
            solved = Sym(z3.Bool("mingenset_solved"))
            n = z3.Int("mgs_size")
            cell["c"], cell["solved"], cell["n"] = c, solved, n
            try:
                r = f(me)
            except SystemExit:
                c.prove("xpost:never-terminates-the-process(exit)", False, prop=P, kind="xpost")
                return
            c.prove("post:returns-the-size-iff-solved-else-None", (r is None) if not isinstance(r, Sym) else z3.And(solved.t, n_ign == 0), prop=P)
            if r is None:
                c.prove("post:None=>mingenset-was-not-solved-or-edges-are-ignored", z3.Or(z3.Not(solved.t), n_ign > 0), prop=P)
        class MGS(Tracked):
            def __init__(self, **kw):
                self.solve_statistics = {}

            def solve(self):
                return cell["solved"]

            def is_solved(self):
                return cell["solved"]

            def get_solution(self):
                cell["c"].prove("pre:MinGenSet.get_solution-on-solved-model", cell["solved"].t, prop=P, kind="pre")
                return SymSeq.fresh("genset", SInt, n=cell["n"])
        glob = dict(utils=UtilsStub, time=TimeStub, copy=CopyStub, mgs=_Mod(MinGenSet=MGS))
        glob[cls] = AnyDefaults(cls)
        return Unit(relpath, cls + "._get_lowerbound_with_min_gen_set", h, globs=glob, props=[P])
    return [mk("flowpaths/minflowdecomp.py", "MinFlowDecomp"), mk("flowpaths/minflowdecompcycles.py", "MinFlowDecompCycles")]


def u_solver_init():
    """SolverWrapper.__init__ (HiGHS): what `kOptimal` is allowed to mean.  ensures: the absolute and the relative MIP gap handed to HiGHS are at most the wrapper's tolerance
    (default 1e-9, a smaller one is rejected with ValueError), whatever order the options are written in (auxiliary: they and the two feasibility tolerances are exactly it); the time limit handed over is the requested one; a fresh wrapper has not timed out and has no queued bound change."""
    def h(c, f):
        opts, order = {}, []

        class Highs:
            def setOptionValue(self, k, v):
                opts[k] = v
                order.append(k)

        class SWCls:
            external_solver, time_limit, use_also_custom_timeout, optimization_sense, threads, presolve, log_to_console = "highs", float("inf"), False, "minimize", 4, "choose", "false"
            tolerance = 1e-9
        tol = c.fresh_const("tolerance", REAL)
        tl = c.fresh_const("time_limit", REAL)

        class Me(Tracked):
            pass
        me = Me()
        st["SW"], st["H"] = SWCls, Highs
        try:
            f(me, tolerance=Sym(tol), time_limit=Sym(tl))
        except ValueError:
            c.prove("xpost:ValueError-only-for-a-tolerance-below-1e-9", tol < z3.RealVal("1/1000000000"), prop=P, kind="xpost")
            return
        c.prove("post:normal-return-only-for-a-tolerance-of-at-least-1e-9", tol >= z3.RealVal("1/1000000000"), prop=P)
        for k in ("mip_abs_gap", "mip_rel_gap"):
            v = opts.get(k)
            c.prove("post:%s-handed-to-HiGHS-is-at-most-the-wrapper's-tolerance-(kOptimal=proven-optimal-up-to-it)" % k,
                    z3.And(lift(v) <= tol, lift(v) >= 0) if isinstance(v, Sym) else z3.BoolVal(isinstance(v, (int, float)) and 0 <= v <= 1e-9), prop=P)
        for k in ("mip_abs_gap", "mip_rel_gap", "mip_feasibility_tolerance", "primal_feasibility_tolerance"):
            v = opts.get(k)
            c.prove("post(auxiliary):%s-is-exactly-the-wrapper's-tolerance" % k, (lift(v) == tol) if isinstance(v, Sym) else z3.BoolVal(False), prop=None)
        v = opts.get("time_limit")
        c.prove("post:the-time-limit-handed-to-HiGHS-is-the-requested-one", (lift(v) == tl) if isinstance(v, Sym) else z3.BoolVal(False), prop=P)
        c.prove("post:a-fresh-wrapper-has-not-timed-out", z3.BoolVal(getattr(me, "did_timeout", None) is False), prop=P)
        c.prove("post(auxiliary):a-fresh-wrapper-has-no-queued-bound-changes",
                z3.BoolVal(all(not getattr(me, a, None) for a in ("_pending_fix_vars", "_pending_fix_vals", "_pending_lb_vars", "_pending_lb_vals"))), prop=None)
    st = {}

    class SWProxy:
        def __getattr__(self, k): return getattr(st["SW"], k)

    from vf.replay import replay_solver_init
    return Unit("flowpaths/utils/solverwrapper.py", "SolverWrapper.__init__", h, globs=dict(utils=UtilsStub, SolverWrapper=SWProxy(), HighsCustom=lambda: st["H"]()), props=[P],
                rewrite_literals=False, replay=replay_solver_init,
                assumptions=["HiGHS honours mip_abs_gap / mip_rel_gap: it reports kOptimal only when the incumbent is within these gaps of the best bound (trusted solver)",
                             "only the HiGHS branch is under contract (Gurobi is not installed)"])


def all_units():
    out = []
    for g in (u_solver_init, u_min_loops, u_mingenset_solve, u_abstract, u_getters, u_numpaths, u_minerrorflow_solve, u_minsetcover_solve, u_lowerbound_mgs):
        r = g()
        out += r if isinstance(r, list) else [r]
    return out
