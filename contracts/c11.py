"""Sidecar contracts for C11 (proof pieces): name translation of NodeExpandedDiGraph, with the z3/cvc5 String theory.

get_expanded_edge:       node n -> (n+'.0', n+'.1');  edge (u,v) -> (u+'.1', v+'.0');  unknown element -> ValueError
get_condensed_paths:     for every node path p of the original graph, condensing its expansion [n0.0, n0.1, n1.0, n1.1, ...] gives p back
get_expanded_additional_starts/ends:   n -> n+'.0'  /  n+'.1'"""
import z3
from pyvc import core
from pyvc.core import Sym, lift, INT, BOOL, STR, Unsupported
from pyvc.heap import SymSeq, SStr
from pyvc.rt import Tracked
from pyvc.unit import Unit, NoopLogger

P = "C11"
F = "flowpaths/nodeexpandeddigraph.py"
IS_NODE = z3.Function("is_original_node", STR, BOOL)
IS_EDGE = z3.Function("is_original_edge", STR, STR, BOOL)


class UtilsStub:
    logger = NoopLogger()


class Nodes:
    def __contains__(self, n):
        if isinstance(n, Sym):
            return core.ctx().decide(IS_NODE(n.t), "node-in-original-graph")
        return False


class Edges:
    def __contains__(self, e):
        return core.ctx().decide(IS_EDGE(lift(e[0]), lift(e[1])), "edge-in-original-graph")


class OG:
    nodes = Nodes()
    edges = Edges()


class Me(Tracked):
    def __init__(self):
        self.original_G = OG()
        self.global_source_id = Sym(z3.String("global_source_id"))
        self.global_sink_id = Sym(z3.String("global_sink_id"))


def u_expanded_edge():
    def h_node(c, f):
        me = Me()
        n = Sym(z3.String("n"))
        try:
            r = f(me, n)
        except ValueError:
            c.prove("xpost:ValueError-iff-unknown-node", z3.Not(IS_NODE(n.t)), prop=P, kind="xpost")
            return
        c.prove("post:known-node=>(n.0,n.1)", z3.And(IS_NODE(n.t), lift(r[0]) == z3.Concat(n.t, z3.StringVal(".0")), lift(r[1]) == z3.Concat(n.t, z3.StringVal(".1"))), prop=P)

    def h_edge(c, f):
        me = Me()
        u, v = Sym(z3.String("u")), Sym(z3.String("v"))
        try:
            r = f(me, (u, v))
        except ValueError:
            c.prove("xpost:ValueError-iff-unknown-edge", z3.Not(IS_EDGE(u.t, v.t)), prop=P, kind="xpost")
            return
        c.prove("post:known-edge=>(u.1,v.0)", z3.And(IS_EDGE(u.t, v.t), lift(r[0]) == z3.Concat(u.t, z3.StringVal(".1")), lift(r[1]) == z3.Concat(v.t, z3.StringVal(".0"))), prop=P)

    def h_other(c, f):
        me = Me()
        try:
            f(me, 42)
            c.prove("xpost:other-types-rejected-with-ValueError", False, prop=P, kind="xpost")
        except ValueError:
            c.prove("xpost:other-types-rejected-with-ValueError", True, prop=P, kind="xpost")
    g = dict(utils=UtilsStub)
    return [Unit(F, "NodeExpandedDiGraph.get_expanded_edge", h, globs=g, props=[P], name="%s:NodeExpandedDiGraph.get_expanded_edge[%s]" % (F, nm))
            for nm, h in (("node", h_node), ("edge", h_edge), ("other", h_other))]


def u_starts_ends():
    def mk(which):
        def h(c, f):
            me = Me()
            def gee(x):
                # CONTRACT of get_expanded_edge for nodes (proved above)
                if not core.ctx().decide(IS_NODE(lift(x)), "known-node"):
                    raise ValueError("unknown node")
                return (Sym(z3.Concat(lift(x), z3.StringVal(".0"))), Sym(z3.Concat(lift(x), z3.StringVal(".1"))))
            me.get_expanded_edge = gee
            nodes = SymSeq.fresh("additional", SStr)
            j = z3.Int("j")
            c.assume(z3.ForAll([j], z3.Implies(z3.And(j >= 0, j < nodes.n), IS_NODE(lift(nodes._at(j))))))      # requires: every additional node is a node
            r = f(me, nodes)
            suffix = ".0" if which == "starts" else ".1"
            r = r if isinstance(r, SymSeq) else r.to_seq()
            guard = z3.And(j >= 0, j < nodes.n)
            with c.quantified(guard):
                body = lift(r._at(j)) == z3.Concat(lift(nodes._at(j)), z3.StringVal(suffix))
            c.prove("post:one-expanded-name-per-node", z3.And(r.n == nodes.n, z3.ForAll([j], z3.Implies(guard, body))), prop=P + ",C10")
        from vf.replay import replay_expanded_additional
        return Unit(F, "NodeExpandedDiGraph.get_expanded_additional_%s" % which, h, globs=dict(utils=UtilsStub), props=[P, "C10"], replay=replay_expanded_additional(which))
    return [mk("starts"), mk("ends")]


def u_condense():
    st = {}

    def inv(ns, seq, done):
        cp = ns["condensed_path"]
        d = lift(done)
        j = z3.Int("jc")
        if not isinstance(cp, SymSeq):
            return {"condensed-prefix": d == 0 if not len(cp) else False}
        N = st["N"]
        return {"condensed-prefix-is-the-original-prefix": z3.And(cp.n == d, z3.ForAll([j], z3.Implies(z3.And(j >= 0, j < d), lift(cp._at(j)) == N(j))))}

    def h(c, f):
        me = Me()
        m = z3.Int("m")                      # number of nodes of the original path
        N = z3.Function("orig_node", INT, STR)
        st["N"] = N
        j = z3.Int("jp")
        c.assume(m >= 0)
        c.assume(z3.ForAll([j], z3.Implies(z3.And(j >= 0, j < m), z3.And(IS_NODE(N(j)), N(j) != me.global_source_id.t, N(j) != me.global_sink_id.t))))
        # the expansion of p: positions 2j / 2j+1 hold N(j)+'.0' / N(j)+'.1'
        path = SymSeq(2 * m, lambda q: Sym(z3.If(lift(q) % 2 == 0, z3.Concat(N(lift(q) / 2), z3.StringVal(".0")), z3.Concat(N(lift(q) / 2), z3.StringVal(".1")))), SStr, "expanded_path")
        res = f(me, [path])
        out = res[0]
        if not isinstance(out, SymSeq):
            c.prove("post:condense(expand(p))=p", z3.And(m == 0, len(out) == 0), prop=P)
            return
        c.prove("post:condense(expand(p))=p", z3.And(out.n == m, z3.ForAll([j], z3.Implies(z3.And(j >= 0, j < m), lift(out._at(j)) == N(j)))), prop=P)

    loops = {1: dict(inv=inv, prop=P, havoc={"condensed_path": lambda old: SymSeq.fresh("condensed", SStr)}, keep=("node",))}
    return Unit(F, "NodeExpandedDiGraph.get_condensed_paths", h, globs=dict(utils=UtilsStub), loops=loops, props=[P],
                assumptions=["node names are arbitrary strings (String theory); original node names differ from the synthetic global source/sink ids"])


def _cat(t, suffix):
    return z3.Concat(t, z3.StringVal(suffix))


def _gee(x):
    """CONTRACT of get_expanded_edge (proved by its own units): node n -> (n.0, n.1), edge (u,v) -> (u.1, v.0), unknown -> ValueError"""
    c = core.ctx()
    if isinstance(x, tuple):
        if not c.decide(IS_EDGE(lift(x[0]), lift(x[1])), "known-edge"):
            raise ValueError("unknown edge")
        return (Sym(_cat(lift(x[0]), ".1")), Sym(_cat(lift(x[1]), ".0")))
    if not c.decide(IS_NODE(lift(x)), "known-node"):
        raise ValueError("unknown node")
    return (Sym(_cat(lift(x), ".0")), Sym(_cat(lift(x), ".1")))


def u_expanded_constraints():
    """_get_expanded_subpath_constraints_nodes / _edges and the dispatcher get_expanded_subpath_constraints: what the models hand to the DAG / walk
    encoders as the constraints of a node-weighted instance.
      nodes:  [n_0..n_{m-1}]            ->  [(n_j.0, n_j.1)]_j                                                  (length m)
      edges:  [(u_0,v_0)..(u_{m-1},v_{m-1})] -> [(u_0.0,u_0.1), (u_0.1,v_0.0), (u_1.0,u_1.1), ..., (u_{m-1}.1,v_{m-1}.0), (v_{m-1}.0,v_{m-1}.1)]   (length 2m+1)
      ValueError exactly when a listed node / edge is not in the original graph; one output list per input list, in order.
    Two abstract constraints of arbitrary length are passed (the outer loop runs natively twice: state leaking from one constraint into the
    next would show); each inner loop is cut at its invariant."""
    from pyvc.heap import STuple
    PAIR = STuple(SStr, SStr)
    st = {}

    def a_(sq, j): return lift(sq._at(j)[0])
    def b_(sq, j): return lift(sq._at(j)[1])

    def empty_pairs():
        return SymSeq(z3.IntVal(0), lambda j: (Sym(z3.StringVal("")), Sym(z3.StringVal(""))), PAIR, "expanded_constraint")

    # ---- node lists
    def spec_nodes(out, con):
        j = z3.Int("sn")
        return z3.And(out.n == con.n, z3.ForAll([j], z3.Implies(z3.And(j >= 0, j < con.n),
                      z3.And(a_(out, j) == _cat(lift(con._at(j)), ".0"), b_(out, j) == _cat(lift(con._at(j)), ".1")))))

    def inv_nodes(ns, seq, done):
        ec, con, d = ns["expanded_constraint"], ns["constraint"], lift(done)
        j = z3.Int("in")
        return {"expanded-prefix=(n.0,n.1)-of-the-nodes-so-far,-all-known": z3.And(ec.n == d, z3.ForAll([j], z3.Implies(z3.And(j >= 0, j < d), z3.And(
            IS_NODE(lift(con._at(j))), a_(ec, j) == _cat(lift(con._at(j)), ".0"), b_(ec, j) == _cat(lift(con._at(j)), ".1")))))}

    def h_nodes(c, f):
        me = Me()
        st["outer"] = True
        cons = [SymSeq.fresh("constraint_a", SStr), SymSeq.fresh("constraint_b", SStr)]
        try:
            out = f(me, cons)
        except ValueError:
            q, j = z3.Ints("xq xj")
            c.prove("xpost:ValueError-only-if-a-listed-node-is-not-a-node-of-the-original-graph",
                    z3.Or(*[z3.Exists([j], z3.And(j >= 0, j < k.n, z3.Not(IS_NODE(lift(k._at(j)))))) for k in cons]), prop=PP, kind="xpost")
            return
        c.prove("post:one-expanded-constraint-per-constraint", z3.BoolVal(isinstance(out, list) and len(out) == 2), prop=PP)
        j = z3.Int("pj")
        for q, k in enumerate(cons):
            c.prove("post:constraint-%d-expands-to-the-node-edges-(n.0,n.1)-in-order" % q, spec_nodes(out[q], k), prop=PP)
            c.prove("post:normal-return-only-if-every-listed-node-is-known[%d]" % q, z3.ForAll([j], z3.Implies(z3.And(j >= 0, j < k.n), IS_NODE(lift(k._at(j))))), prop=PP)

    # ---- edge lists
    def spec_edges_prefix(ec, con, d, closed):
        """first d edges expanded; `closed`: the final node edge has been appended (d == m > 0)"""
        j = z3.Int("se")
        u = lambda x: a_(con, x)
        v = lambda x: b_(con, x)
        body = z3.ForAll([j], z3.Implies(z3.And(j >= 0, j < d), z3.And(
            IS_EDGE(u(j), v(j)),
            a_(ec, 2 * j) == _cat(u(j), ".0"), b_(ec, 2 * j) == _cat(u(j), ".1"),
            a_(ec, 2 * j + 1) == _cat(u(j), ".1"), b_(ec, 2 * j + 1) == _cat(v(j), ".0"))))
        last = z3.And(a_(ec, 2 * d) == _cat(v(d - 1), ".0"), b_(ec, 2 * d) == _cat(v(d - 1), ".1"))
        return z3.And(ec.n == 2 * d + z3.If(closed, 1, 0), body, z3.Implies(closed, last))

    def inv_edges(ns, seq, done):
        ec, con, d = ns["expanded_constraint"], ns["constraint"], lift(done)
        return {"expanded-prefix=node-edge,edge-edge-per-listed-edge-(+closing-node-edge-after-the-last)": spec_edges_prefix(ec, con, d, z3.And(d == con.n, d > 0))}

    def h_edges(c, f):
        me = Me()
        st["outer"] = True
        me.get_expanded_edge = _gee
        cons = [SymSeq.fresh("constraint_a", PAIR), SymSeq.fresh("constraint_b", PAIR)]
        try:
            out = f(me, cons)
        except ValueError:
            j = z3.Int("xj")
            c.prove("xpost:ValueError-only-if-a-listed-edge-is-not-an-edge-(or-an-endpoint-not-a-node)-of-the-original-graph",
                    z3.Or(*[z3.Exists([j], z3.And(j >= 0, j < k.n, z3.Or(z3.Not(IS_EDGE(a_(k, j), b_(k, j))), z3.Not(IS_NODE(a_(k, j))), z3.Not(IS_NODE(b_(k, j)))))) for k in cons]),
                    prop=PP, kind="xpost")
            return
        c.prove("post:one-expanded-constraint-per-constraint", z3.BoolVal(isinstance(out, list) and len(out) == 2), prop=PP)
        for q, k in enumerate(cons):
            o = out[q]
            c.prove("post:constraint-%d-expands-to-u0-node-edge,(u0.1,v0.0),u1-node-edge,...,closing-node-edge-of-the-last-head" % q,
                    spec_edges_prefix(o, k, k.n, k.n > 0), prop=PP)

    PP = P + ",C10"
    hv = lambda old: SymSeq.fresh("expanded_constraint", PAIR)
    # the first `[]` of a call is the outer result list (a real list), the others are the per-constraint lists
    lit = dict(list=lambda: ([] if st.pop("outer", False) else empty_pairs()))
    g = dict(utils=UtilsStub)
    from vf.replay import replay_expanded_constraints
    units = [Unit(F, "NodeExpandedDiGraph._get_expanded_subpath_constraints_nodes", h_nodes, globs=g, props=[P, "C10"], literals=dict(lit), replay=replay_expanded_constraints("nodes"),
                  loops={0: dict(inv=lambda ns, seq, done: {}, prop=PP), 1: dict(inv=inv_nodes, prop=PP, havoc={"expanded_constraint": hv}, keep=("node",))},
                  assumptions=["node names are arbitrary strings (String theory)"]),
             Unit(F, "NodeExpandedDiGraph._get_expanded_subpath_constraints_edges", h_edges, globs=g, props=[P, "C10"], literals=dict(lit), replay=replay_expanded_constraints("edges"),
                  loops={0: dict(inv=lambda ns, seq, done: {}, prop=PP), 1: dict(inv=inv_edges, prop=PP, havoc={"expanded_constraint": hv}, keep=("i", "edge"))},
                  callee_contracts=["get_expanded_edge: node n -> (n.0, n.1), unknown -> ValueError (own units)"],
                  assumptions=["node names are arbitrary strings (String theory)", "an edge of the original graph joins two of its nodes"])]
    def mk_dispatch(kind):
        def h(c, f):
            me = Me()
            calls = []
            me._get_expanded_subpath_constraints_nodes = lambda cs: calls.append(("nodes", cs)) or "NODES-RESULT"
            me._get_expanded_subpath_constraints_edges = lambda cs: calls.append(("edges", cs)) or "EDGES-RESULT"
            if kind == "not-a-list":
                arg = (SymSeq.fresh("constraint_a", SStr),)
            elif kind == "empty":
                arg = []
            else:
                arg = [SymSeq.fresh("constraint_a", SStr if kind == "nodes" else PAIR), SymSeq.fresh("constraint_b", SStr if kind == "nodes" else PAIR)]
            try:
                r = f(me, arg)
            except ValueError:
                if kind in ("nodes", "edges"):
                    c.prove("xpost:ValueError-for-a-list-of-lists-only-if-some-constraint-is-empty", z3.Or(arg[0].n == 0, arg[1].n == 0), prop=PP, kind="xpost")
                else:
                    c.prove("xpost:ValueError-for-an-argument-that-is-not-a-list", z3.BoolVal(kind == "not-a-list"), prop=PP, kind="xpost")
                return
            if kind == "empty":
                c.prove("post:no-constraints=>no-expanded-constraints", z3.BoolVal(r == [] and not calls), prop=PP)
            elif kind == "not-a-list":
                c.prove("post:an-argument-that-is-not-a-list-is-rejected", z3.BoolVal(False), prop=PP)
            else:
                c.prove("post:lists-of-%s-are-expanded-by-the-%s-expander-applied-to-the-whole-argument" % (kind, kind),
                        z3.BoolVal(len(calls) == 1 and calls[0][0] == kind and isinstance(calls[0][1], list) and len(calls[0][1]) == 2 and all(x is y for x, y in zip(calls[0][1], arg))
                                   and r == kind.upper() + "-RESULT"), prop=PP)
                c.prove("post:normal-return-only-if-no-constraint-is-empty", z3.And(arg[0].n > 0, arg[1].n > 0), prop=PP)
        return Unit(F, "NodeExpandedDiGraph.get_expanded_subpath_constraints", h, globs=g, props=[P, "C10"],
                    name="%s:NodeExpandedDiGraph.get_expanded_subpath_constraints[%s]" % (F, kind),
                    callee_contracts=["_get_expanded_subpath_constraints_nodes / _edges (own units)"])
    return units + [mk_dispatch(k) for k in ("nodes", "edges", "empty", "not-a-list")]


def all_units():
    return u_expanded_edge() + u_starts_ends() + [u_condense()] + u_expanded_constraints()
