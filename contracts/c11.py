"""Sidecar contracts for C11 (proof pieces): name translation of NodeExpandedDiGraph, with the z3/cvc5 String theory.

get_expanded_edge:       node n -> (n+'.0', n+'.1');  edge (u,v) -> (u+'.1', v+'.0');  unknown element -> ValueError
get_condensed_paths:     for every node path p of the original graph, condensing its expansion [n0.0, n0.1, n1.0, n1.1, ...] gives p back
get_expanded_additional_starts/ends:   n -> n+'.0'  /  n+'.1'"""
import z3
from pyvc import core
from pyvc.core import Sym, lift, INT, BOOL, STR, Unsupported
from pyvc.heap import SymSeq, SStr
from pyvc.rt import Tracked
from pyvc.unit import Unit, NoopLogger

P = "C11"
F = "flowpaths/nodeexpandeddigraph.py"
IS_NODE = z3.Function("is_original_node", STR, BOOL)
IS_EDGE = z3.Function("is_original_edge", STR, STR, BOOL)


class UtilsStub:
    logger = NoopLogger()


class Nodes:
    def __contains__(self, n):
        if isinstance(n, Sym):
            return core.ctx().decide(IS_NODE(n.t), "node-in-original-graph")
        return False


class Edges:
    def __contains__(self, e):
        return core.ctx().decide(IS_EDGE(lift(e[0]), lift(e[1])), "edge-in-original-graph")


class OG:
    nodes = Nodes()
    edges = Edges()


class Me(Tracked):
    def __init__(self):
        self.original_G = OG()
        self.global_source_id = Sym(z3.String("global_source_id"))
        self.global_sink_id = Sym(z3.String("global_sink_id"))


def u_expanded_edge():
    def h_node(c, f):
        me = Me()
        n = Sym(z3.String("n"))
        try:
            r = f(me, n)
        except ValueError:
            c.prove("xpost:ValueError-iff-unknown-node", z3.Not(IS_NODE(n.t)), prop=P, kind="xpost")
            return
        c.prove("post:known-node=>(n.0,n.1)", z3.And(IS_NODE(n.t), lift(r[0]) == z3.Concat(n.t, z3.StringVal(".0")), lift(r[1]) == z3.Concat(n.t, z3.StringVal(".1"))), prop=P)

    def h_edge(c, f):
        me = Me()
        u, v = Sym(z3.String("u")), Sym(z3.String("v"))
        try:
            r = f(me, (u, v))
        except ValueError:
            c.prove("xpost:ValueError-iff-unknown-edge", z3.Not(IS_EDGE(u.t, v.t)), prop=P, kind="xpost")
            return
        c.prove("post:known-edge=>(u.1,v.0)", z3.And(IS_EDGE(u.t, v.t), lift(r[0]) == z3.Concat(u.t, z3.StringVal(".1")), lift(r[1]) == z3.Concat(v.t, z3.StringVal(".0"))), prop=P)

    def h_other(c, f):
        me = Me()
        try:
            f(me, 42)
            c.prove("xpost:other-types-rejected-with-ValueError", False, prop=P, kind="xpost")
        except ValueError:
            c.prove("xpost:other-types-rejected-with-ValueError", True, prop=P, kind="xpost")
    g = dict(utils=UtilsStub)
    return [Unit(F, "NodeExpandedDiGraph.get_expanded_edge", h, globs=g, props=[P], name="%s:NodeExpandedDiGraph.get_expanded_edge[%s]" % (F, nm))
            for nm, h in (("node", h_node), ("edge", h_edge), ("other", h_other))]


def u_starts_ends():
    def mk(which):
        def h(c, f):
            me = Me()
            def gee(x):
                # CONTRACT of get_expanded_edge for nodes (proved above)
                if not core.ctx().decide(IS_NODE(lift(x)), "known-node"):
                    raise ValueError("unknown node")
                return (Sym(z3.Concat(lift(x), z3.StringVal(".0"))), Sym(z3.Concat(lift(x), z3.StringVal(".1"))))
            me.get_expanded_edge = gee
            nodes = SymSeq.fresh("additional", SStr)
            j = z3.Int("j")
            c.assume(z3.ForAll([j], z3.Implies(z3.And(j >= 0, j < nodes.n), IS_NODE(lift(nodes._at(j))))))      # requires: every additional node is a node
            r = f(me, nodes)
            suffix = ".0" if which == "starts" else ".1"
            r = r if isinstance(r, SymSeq) else r.to_seq()
            guard = z3.And(j >= 0, j < nodes.n)
            with c.quantified(guard):
                body = lift(r._at(j)) == z3.Concat(lift(nodes._at(j)), z3.StringVal(suffix))
            c.prove("post:one-expanded-name-per-node", z3.And(r.n == nodes.n, z3.ForAll([j], z3.Implies(guard, body))), prop=P + ",C10")
        from vf.replay import replay_expanded_additional
        return Unit(F, "NodeExpandedDiGraph.get_expanded_additional_%s" % which, h, globs=dict(utils=UtilsStub), props=[P, "C10"], replay=replay_expanded_additional(which))
    return [mk("starts"), mk("ends")]


def u_condense():
    st = {}

    def inv(ns, seq, done):
        cp = ns["condensed_path"]
        d = lift(done)
        j = z3.Int("jc")
        if not isinstance(cp, SymSeq):
            return {"condensed-prefix": d == 0 if not len(cp) else False}
        N = st["N"]
        return {"condensed-prefix-is-the-original-prefix": z3.And(cp.n == d, z3.ForAll([j], z3.Implies(z3.And(j >= 0, j < d), lift(cp._at(j)) == N(j))))}

    def h(c, f):
        me = Me()
        m = z3.Int("m")                      # number of nodes of the original path
        N = z3.Function("orig_node", INT, STR)
        st["N"] = N
        j = z3.Int("jp")
        c.assume(m >= 0)
        c.assume(z3.ForAll([j], z3.Implies(z3.And(j >= 0, j < m), z3.And(IS_NODE(N(j)), N(j) != me.global_source_id.t, N(j) != me.global_sink_id.t))))
        # the expansion of p: positions 2j / 2j+1 hold N(j)+'.0' / N(j)+'.1'
        path = SymSeq(2 * m, lambda q: Sym(z3.If(lift(q) % 2 == 0, z3.Concat(N(lift(q) / 2), z3.StringVal(".0")), z3.Concat(N(lift(q) / 2), z3.StringVal(".1")))), SStr, "expanded_path")
        res = f(me, [path])
        out = res[0]
        if not isinstance(out, SymSeq):
            c.prove("post:condense(expand(p))=p", z3.And(m == 0, len(out) == 0), prop=P)
            return
        c.prove("post:condense(expand(p))=p", z3.And(out.n == m, z3.ForAll([j], z3.Implies(z3.And(j >= 0, j < m), lift(out._at(j)) == N(j)))), prop=P)

    loops = {1: dict(inv=inv, prop=P, havoc={"condensed_path": lambda old: SymSeq.fresh("condensed", SStr)}, keep=("node",))}
    return Unit(F, "NodeExpandedDiGraph.get_condensed_paths", h, globs=dict(utils=UtilsStub), loops=loops, props=[P],
                assumptions=["node names are arbitrary strings (String theory); original node names differ from the synthetic global source/sink ids"])


def all_units():
    return u_expanded_edge() + u_starts_ends() + [u_condense()]
