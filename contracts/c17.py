"""Sidecar contracts for C17 (proof piece): stDAG.reachable_nodes_from - the reverse-topological DP.

requires  A2: self.topological_order_rev lists every node once and every successor of a node comes EARLIER in it (networkx topological sort);
          successors(u) enumerates exactly the out-neighbours of u
ensures   the table satisfies, for every node u:   R[u] = {u}  union  the union of R[v] over the successors v of u
          (on a DAG this fix-point is unique and equals reachability: LM4, not proved here; cross-checked against BFS in the bounded part)"""
import z3
from pyvc import core
from pyvc.core import Sym, lift, INT, BOOL, Unsupported
from pyvc.heap import SymSeq, SInt
from pyvc.rt import Tracked
from pyvc.unit import Unit, NoopLogger

P = "C17"
SETSORT = z3.ArraySort(INT, BOOL)
RELSORT = z3.ArraySort(INT, SETSORT)
EDGE = z3.Function("is_edge", INT, INT, BOOL)
POS = z3.Function("pos_in_reverse_topological_order", INT, INT)
TOP = z3.Function("node_at", INT, INT)
DEG = z3.Function("out_degree", INT, INT)
SUCC = z3.Function("succ", INT, INT, INT)


class SetVal:
    """a set of nodes as a z3 set term (Array Int Bool)"""

    def __init__(self, term):
        self.term = term

    def __ior__(self, other):
        return SetVal(z3.SetUnion(self.term, other.term))

    __or__ = __ior__


def new_set(elts):
    t = z3.EmptySet(INT)
    for x in elts:
        t = z3.SetAdd(t, lift(x))
    return SetVal(t)


class RelMap:
    def __init__(self, rel):
        self.rel = rel

    def __getitem__(self, k):
        return SetVal(self.rel[lift(k)])

    def __setitem__(self, k, v):
        if not isinstance(v, SetVal):
            raise Unsupported("RelMap value")
        self.rel = z3.Store(self.rel, lift(k), v.term)


def dictcomp(fn, it, flt):
    if flt is not None:
        raise Unsupported("filtered dict comprehension")
    u = z3.Int(core.ctx().name("dc"))
    k, v = fn(Sym(u))
    if not (isinstance(v, SetVal) and z3.eq(lift(k), u)):
        raise Unsupported("dict comprehension shape")
    return RelMap(z3.Lambda([u], v.term))


def u_reachable_nodes_from():
    st = {}

    def node(u, n):
        return z3.And(POS(u) >= 0, POS(u) < n, TOP(POS(u)) == u)

    def fix(R, u):
        x, v = z3.Ints("fx fv")
        return z3.ForAll([x], R[u][x] == z3.Or(x == u, z3.Exists([v], z3.And(EDGE(u, v), R[v][x]))))

    def inv_outer(ns, seq, done):
        me = ns["self"]
        R, d, n = me._reachable_nodes_from.rel, lift(done), st["n"]
        u, x = z3.Ints("ou ox")
        return {"processed-nodes-satisfy-the-fix-point-equation": z3.ForAll([u], z3.Implies(z3.And(node(u, n), POS(u) < d), fix(R, u))),
                "unprocessed-nodes-still-hold-only-themselves": z3.ForAll([u, x], z3.Implies(z3.And(node(u, n), POS(u) >= d), R[u][x] == (x == u)))}

    def on_entry_inner(ns, it=None):
        st["R0"] = ns["self"]._reachable_nodes_from.rel
        st["cur"] = lift(ns["node"])

    def inv_inner(ns, seq, done):
        me = ns["self"]
        R, R0, cur, e = me._reachable_nodes_from.rel, st["R0"], st["cur"], lift(done)
        x, w, j = z3.Ints("ix iw ij")
        return {"current-row={node}+rows-of-the-successors-seen-so-far": z3.ForAll([x], R[cur][x] == z3.Or(x == cur, z3.Exists([j], z3.And(j >= 0, j < e, R0[SUCC(cur, j)][x])))),
                "other-rows-unchanged": z3.ForAll([w], z3.Implies(w != cur, R[w] == R0[w]))}

    def h(c, f):
        class Me(Tracked):
            pass
        me = Me()
        n = c.fresh_const("n_nodes", INT)
        c.assume(n >= 0)
        st["n"] = n
        u, v, j = z3.Ints("hu hv hj")
        # A2 / graph contracts
        c.assume(z3.ForAll([j], z3.Implies(z3.And(j >= 0, j < n), z3.And(POS(TOP(j)) == j))))                           # the order lists each node once
        c.assume(z3.ForAll([u, v], z3.Implies(EDGE(u, v), z3.And(node(u, n), node(v, n), POS(v) < POS(u)))))           # successors come earlier
        c.assume(z3.ForAll([u, j], z3.Implies(z3.And(j >= 0, j < DEG(u)), EDGE(u, SUCC(u, j)))))                        # successors() enumerates edges ...
        c.assume(z3.ForAll([u, v], z3.Implies(EDGE(u, v), z3.Exists([j], z3.And(j >= 0, j < DEG(u), SUCC(u, j) == v)))))  # ... all of them
        c.assume(z3.ForAll([u], DEG(u) >= 0))
        me._reachable_nodes_from = None
        me.nodes = lambda: SymSeq(n, lambda q: Sym(TOP(lift(q))), SInt, "nodes")
        me.topological_order_rev = SymSeq(n, lambda q: Sym(TOP(lift(q))), SInt, "topological_order_rev")
        me.successors = lambda w: SymSeq(DEG(lift(w)), lambda q: Sym(SUCC(lift(w), lift(q))), SInt, "successors")
        res = f(me)
        if not isinstance(res, RelMap):
            c.prove("post:returns-the-table", False, prop=P)
            return
        R = res.rel
        c.prove("post:every-node-satisfies  R[u] = {u} + union of R[v] over successors v", z3.ForAll([u], z3.Implies(node(u, n), fix(R, u))), prop=P)
        c.prove("post:the-table-is-memoised", me._reachable_nodes_from is res, prop=P)
        # second call: memoised object returned, nothing recomputed
        res2 = f(me)
        c.prove("post:second-query-returns-the-memoised-table-unchanged", res2 is res and res2.rel is R, prop=P)

    fresh = lambda old: RelMap(z3.Const(core.ctx().name("R"), RELSORT))
    loops = {0: dict(inv=inv_outer, prop=P, modifies=[(("self", "_reachable_nodes_from"), fresh)]),
             1: dict(inv=inv_inner, prop=P, on_entry=on_entry_inner, modifies=[(("self", "_reachable_nodes_from"), fresh)])}
    return Unit("flowpaths/stdag.py", "stDAG.reachable_nodes_from", h, globs=dict(), loops=loops, props=[P], literals=dict(set=new_set, dictcomp=dictcomp),
                assumptions=["A2 networkx: reversed topological order lists every node once with successors first; successors() enumerates the out-neighbours",
                             "LM4 (not proved): on a DAG the fix-point of R[u] = {u} + union R[succ] is unique and equals reachability (bounded part compares with BFS)"])


# ---------------------------------------------------------------------------------------------
# stDiGraph.nodes_reachable / nodes_reaching: per-node caches over the SCC condensation

ISNODE = z3.Function("is_node", INT, BOOL)
MAP = z3.Function("scc_of", INT, INT)
DESC = z3.Function("condensation_descendant", INT, INT, BOOL)      # DESC(c, d): d is a proper descendant of c in the condensation DAG


def spec_forward(n, a):
    return z3.And(ISNODE(a), z3.Or(DESC(MAP(n), MAP(a)), MAP(a) == MAP(n)))


def spec_backward(n, a):
    return z3.And(ISNODE(a), z3.Or(DESC(MAP(a), MAP(n)), MAP(a) == MAP(n)))


class CacheMap:
    """dict node -> set of nodes, as ghost arrays (dom, val)"""
    def __init__(self, name):
        c = core.ctx()
        self.dom = z3.Const(c.name(name + ".dom"), SETSORT)
        self.val = z3.Const(c.name(name + ".val"), RELSORT)

    def __contains__(self, k):
        return core.ctx().decide(self.dom[lift(k)], "cached")

    def __getitem__(self, k):
        core.ctx().prove("pre:cache-read-only-for-a-cached-node", self.dom[lift(k)], kind="pre")
        return SetVal(self.val[lift(k)])

    def __setitem__(self, k, v):
        if not isinstance(v, SetVal):
            raise Unsupported("cache value")
        self.dom = z3.Store(self.dom, lift(k), z3.BoolVal(True))
        self.val = z3.Store(self.val, lift(k), v.term)

    def consistent(self, spec):
        n, a = z3.Ints("cn ca")
        return z3.ForAll([n], z3.Implies(self.dom[n], z3.ForAll([a], self.val[n][a] == spec(n, a))))


def u_reach_cache(which):
    fname = "nodes_reachable" if which == "forward" else "nodes_reaching"
    spec = spec_forward if which == "forward" else spec_backward
    st = {}

    class Members:
        def __contains__(self, x):
            return core.ctx().decide(ISNODE(lift(x)), "is-node")

    class Mapping:
        def __getitem__(self, x):
            core.ctx().prove("pre:mapping-read-only-for-a-node", ISNODE(lift(x)), kind="pre")
            return Sym(MAP(lift(x)))

    class Cond:
        graph = {"mapping": Mapping()}

    class ByScc:
        def get(self, c, default=None):
            a = z3.Int(core.ctx().name("ba"))
            return SetVal(z3.Lambda([a], z3.And(ISNODE(a), MAP(a) == lift(c))))

    class NX:
        """A2: networkx descendants / ancestors of the condensation DAG (proper ones: the node itself is excluded, the code adds it)"""
        @staticmethod
        def descendants(C, c):
            d = z3.Int(core.ctx().name("nd"))
            return SetVal(z3.Lambda([d], DESC(lift(c), d)))

        @staticmethod
        def ancestors(C, c):
            d = z3.Int(core.ctx().name("na"))
            return SetVal(z3.Lambda([d], DESC(d, lift(c))))

    def set_(x=None):
        if x is None:
            return SetVal(z3.EmptySet(INT))
        if isinstance(x, SetVal):
            return SetVal(x.term)
        raise Unsupported("set() of %s" % type(x).__name__)

    def to_seq(sv):
        """enumeration of a finite set (the condensation is finite): every element is listed, only elements are listed"""
        c = core.ctx()
        n = c.fresh_const("n_sccs", INT)
        at, idx = z3.Function(c.name("scc_at"), INT, INT), z3.Function(c.name("scc_index"), INT, INT)
        j, d = z3.Ints("ej ed")
        c.assume(n >= 0)
        c.assume(z3.ForAll([j], z3.Implies(z3.And(j >= 0, j < n), sv.term[at(j)])))
        c.assume(z3.ForAll([d], z3.Implies(sv.term[d], z3.And(idx(d) >= 0, idx(d) < n, at(idx(d)) == d))))
        st["at"] = at
        return SymSeq(n, lambda q: Sym(at(lift(q))), SInt, "sccs")

    def inv(ns, seq, done):
        a, j = z3.Ints("ia ij")
        at = st["at"]
        return {"result=the-nodes-of-the-SCCs-seen-so-far":
                z3.ForAll([a], ns["result"].term[a] == z3.Exists([j], z3.And(j >= 0, j < lift(done), ISNODE(a), MAP(a) == at(j))))}

    def h(c, f):
        class Me(Tracked):
            pass
        me = Me()
        me._condensation = Cond()
        me._nodes_by_scc = ByScc()
        me.nodes = lambda: Members()
        fw, bw = CacheMap("reachable_cache"), CacheMap("reaching_cache")
        me._nodes_reachable_from_node_cache, me._nodes_reaching_node_cache = fw, bw
        # data-structure invariant on entry: whatever was cached by earlier queries (any number, any order) is right
        c.assume(fw.consistent(spec_forward))
        c.assume(bw.consistent(spec_backward))
        fw0, bw0 = (fw.dom, fw.val), (bw.dom, bw.val)
        node = c.fresh_const("query_node", INT)
        a = z3.Int("pa")
        try:
            r = f(me, Sym(node))
        except ValueError:
            c.prove("xpost:ValueError-only-for-a-non-node", z3.Not(ISNODE(node)), prop=P, kind="xpost")
            c.prove("xpost:caches-untouched", z3.BoolVal(all(x is y for x, y in zip((fw.dom, fw.val, bw.dom, bw.val), fw0 + bw0))), prop=P, kind="xpost")
            return
        if not isinstance(r, SetVal):
            c.prove("post:returns-a-set", False, prop=P)
            return
        c.prove("post:answer=exactly-the-nodes-%s-(warm-or-cold-cache)" % ("reachable-from-the-node" if which == "forward" else "that-reach-the-node"),
                z3.ForAll([a], r.term[a] == spec(node, a)), prop=P)
        c.prove("post:both-caches-still-consistent-with-the-graph", z3.And(fw.consistent(spec_forward), bw.consistent(spec_backward)), prop=P)
        mine, other, other0 = (fw, bw, bw0) if which == "forward" else (bw, fw, fw0)
        c.prove("post:the-other-direction's-cache-is-untouched", z3.BoolVal(other.dom is other0[0] and other.val is other0[1]), prop=P)
        c.prove("post:the-answer-is-cached-for-this-node", mine.dom[node], prop=P)

    loops = {0: dict(inv=inv, prop=P, iterable=to_seq, havoc={"result": lambda old: SetVal(z3.Const(core.ctx().name("result"), SETSORT))}, keep=("c",))}
    return Unit("flowpaths/stdigraph.py", "stDiGraph." + fname, h, globs=dict(utils=UtilsStub, nx=NX, set=set_), loops=loops, props=[P], literals=dict(set=new_set),
                assumptions=["A2 networkx: nx.descendants / nx.ancestors of the condensation return exactly the proper descendants / ancestors; C.graph['mapping'] maps a node to its SCC; "
                             "_nodes_by_scc[c] holds exactly the nodes mapped to c (built once in the constructor)",
                             "LM: a is reachable from n in the digraph iff scc(a) is scc(n) or a descendant of it in the condensation (standard; the bounded part compares with BFS)",
                             "the entry state is ANY pair of caches consistent with the graph: this is the invariant every earlier query (any number, any order) re-establishes, proved as a postcondition"])


class UtilsStub:
    logger = NoopLogger()


def u_is_scc_edge():
    """stDiGraph.is_scc_edge(u, v): True exactly when u and v are mapped to the same SCC of the condensation; ValueError exactly when (u, v) is no edge.
    (That two nodes are in one SCC iff each reaches the other is networkx' condensation contract, A2; the bounded part compares with mutual reachability.)"""
    ISEDGE = z3.Function("is_edge_of_G", INT, INT, BOOL)

    def h(c, f):
        class Edges:
            def __contains__(self, e): return core.ctx().decide(ISEDGE(lift(e[0]), lift(e[1])), "is-edge")

        class Mapping:
            def __getitem__(self, x): return Sym(MAP(lift(x)))

        class Cond:
            graph = {"mapping": Mapping()}

        class Me(Tracked):
            pass
        me = Me()
        me._condensation = Cond()
        me.edges = lambda: Edges()
        u, v = c.fresh_const("u", INT), c.fresh_const("v", INT)
        try:
            r = f(me, Sym(u), Sym(v))
        except ValueError:
            c.prove("xpost:ValueError-only-for-a-pair-that-is-no-edge", z3.Not(ISEDGE(u, v)), prop=P, kind="xpost")
            return
        c.prove("post:normal-return-only-for-an-edge", ISEDGE(u, v), prop=P)
        c.prove("post:True-exactly-when-both-endpoints-lie-in-the-same-SCC", lift(r) == (MAP(u) == MAP(v)), prop=P)
    return Unit("flowpaths/stdigraph.py", "stDiGraph.is_scc_edge", h, globs=dict(utils=UtilsStub), props=[P],
                assumptions=["A2 networkx: C.graph['mapping'] sends two nodes to the same condensation node iff they are strongly connected"])


def all_units():
    return [u_reachable_nodes_from(), u_reach_cache("forward"), u_reach_cache("backward"), u_is_scc_edge()]
