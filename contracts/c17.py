"""Sidecar contracts for C17 (proof piece): stDAG.reachable_nodes_from - the reverse-topological DP.

requires  A2: self.topological_order_rev lists every node once and every successor of a node comes EARLIER in it (networkx topological sort);
          successors(u) enumerates exactly the out-neighbours of u
ensures   the table satisfies, for every node u:   R[u] = {u}  union  the union of R[v] over the successors v of u
          (on a DAG this fix-point is unique and equals reachability: LM4, not proved here; cross-checked against BFS in the bounded part)"""
import z3
from pyvc import core
from pyvc.core import Sym, lift, INT, BOOL, Unsupported
from pyvc.heap import SymSeq, SInt
from pyvc.rt import Tracked
from pyvc.unit import Unit, NoopLogger

P = "C17"
SETSORT = z3.ArraySort(INT, BOOL)
RELSORT = z3.ArraySort(INT, SETSORT)
EDGE = z3.Function("is_edge", INT, INT, BOOL)
POS = z3.Function("pos_in_reverse_topological_order", INT, INT)
TOP = z3.Function("node_at", INT, INT)
DEG = z3.Function("out_degree", INT, INT)
SUCC = z3.Function("succ", INT, INT, INT)


class SetVal:
    """a set of nodes as a z3 set term (Array Int Bool)"""

    def __init__(self, term):
        self.term = term

    def __ior__(self, other):
        return SetVal(z3.SetUnion(self.term, other.term))

    __or__ = __ior__


def new_set(elts):
    t = z3.EmptySet(INT)
    for x in elts:
        t = z3.SetAdd(t, lift(x))
    return SetVal(t)


class RelMap:
    def __init__(self, rel):
        self.rel = rel

    def __getitem__(self, k):
        return SetVal(self.rel[lift(k)])

    def __setitem__(self, k, v):
        if not isinstance(v, SetVal):
            raise Unsupported("RelMap value")
        self.rel = z3.Store(self.rel, lift(k), v.term)


def dictcomp(fn, it, flt):
    if flt is not None:
        raise Unsupported("filtered dict comprehension")
    u = z3.Int(core.ctx().name("dc"))
    k, v = fn(Sym(u))
    if not (isinstance(v, SetVal) and z3.eq(lift(k), u)):
        raise Unsupported("dict comprehension shape")
    return RelMap(z3.Lambda([u], v.term))


def u_reachable_nodes_from():
    st = {}

    def node(u, n):
        return z3.And(POS(u) >= 0, POS(u) < n, TOP(POS(u)) == u)

    def fix(R, u):
        x, v = z3.Ints("fx fv")
        return z3.ForAll([x], R[u][x] == z3.Or(x == u, z3.Exists([v], z3.And(EDGE(u, v), R[v][x]))))

    def inv_outer(ns, seq, done):
        me = ns["self"]
        R, d, n = me._reachable_nodes_from.rel, lift(done), st["n"]
        u, x = z3.Ints("ou ox")
        return {"processed-nodes-satisfy-the-fix-point-equation": z3.ForAll([u], z3.Implies(z3.And(node(u, n), POS(u) < d), fix(R, u))),
                "unprocessed-nodes-still-hold-only-themselves": z3.ForAll([u, x], z3.Implies(z3.And(node(u, n), POS(u) >= d), R[u][x] == (x == u)))}

    def on_entry_inner(ns, it=None):
        st["R0"] = ns["self"]._reachable_nodes_from.rel
        st["cur"] = lift(ns["node"])

    def inv_inner(ns, seq, done):
        me = ns["self"]
        R, R0, cur, e = me._reachable_nodes_from.rel, st["R0"], st["cur"], lift(done)
        x, w, j = z3.Ints("ix iw ij")
        return {"current-row={node}+rows-of-the-successors-seen-so-far": z3.ForAll([x], R[cur][x] == z3.Or(x == cur, z3.Exists([j], z3.And(j >= 0, j < e, R0[SUCC(cur, j)][x])))),
                "other-rows-unchanged": z3.ForAll([w], z3.Implies(w != cur, R[w] == R0[w]))}

    def h(c, f):
        class Me(Tracked):
            pass
        me = Me()
        n = c.fresh_const("n_nodes", INT)
        c.assume(n >= 0)
        st["n"] = n
        u, v, j = z3.Ints("hu hv hj")
        # A2 / graph contracts
        c.assume(z3.ForAll([j], z3.Implies(z3.And(j >= 0, j < n), z3.And(POS(TOP(j)) == j))))                           # the order lists each node once
        c.assume(z3.ForAll([u, v], z3.Implies(EDGE(u, v), z3.And(node(u, n), node(v, n), POS(v) < POS(u)))))           # successors come earlier
        c.assume(z3.ForAll([u, j], z3.Implies(z3.And(j >= 0, j < DEG(u)), EDGE(u, SUCC(u, j)))))                        # successors() enumerates edges ...
        c.assume(z3.ForAll([u, v], z3.Implies(EDGE(u, v), z3.Exists([j], z3.And(j >= 0, j < DEG(u), SUCC(u, j) == v)))))  # ... all of them
        c.assume(z3.ForAll([u], DEG(u) >= 0))
        me._reachable_nodes_from = None
        me.nodes = lambda: SymSeq(n, lambda q: Sym(TOP(lift(q))), SInt, "nodes")
        me.topological_order_rev = SymSeq(n, lambda q: Sym(TOP(lift(q))), SInt, "topological_order_rev")
        me.successors = lambda w: SymSeq(DEG(lift(w)), lambda q: Sym(SUCC(lift(w), lift(q))), SInt, "successors")
        res = f(me)
        if not isinstance(res, RelMap):
            c.prove("post:returns-the-table", False, prop=P)
            return
        R = res.rel
        c.prove("post:every-node-satisfies  R[u] = {u} + union of R[v] over successors v", z3.ForAll([u], z3.Implies(node(u, n), fix(R, u))), prop=P)
        c.prove("post:the-table-is-memoised", me._reachable_nodes_from is res, prop=P)
        # second call: memoised object returned, nothing recomputed
        res2 = f(me)
        c.prove("post:second-query-returns-the-memoised-table-unchanged", res2 is res and res2.rel is R, prop=P)

    fresh = lambda old: RelMap(z3.Const(core.ctx().name("R"), RELSORT))
    loops = {0: dict(inv=inv_outer, prop=P, modifies=[(("self", "_reachable_nodes_from"), fresh)]),
             1: dict(inv=inv_inner, prop=P, on_entry=on_entry_inner, modifies=[(("self", "_reachable_nodes_from"), fresh)])}
    return Unit("flowpaths/stdag.py", "stDAG.reachable_nodes_from", h, globs=dict(), loops=loops, props=[P], literals=dict(set=new_set, dictcomp=dictcomp),
                assumptions=["A2 networkx: reversed topological order lists every node once with successors first; successors() enumerates the out-neighbours",
                             "LM4 (not proved): on a DAG the fix-point of R[u] = {u} + union R[succ] is unique and equals reachability (bounded part compares with BFS)"])


def all_units():
    return [u_reachable_nodes_from()]
