"""Shared contract stubs for model-level units (C13, C01, C03/C04/C09, C15, C16 proof pieces)."""
import z3
from pyvc import core
from pyvc.core import Sym, lift, INT, REAL, BOOL, STR, Unsupported
from pyvc.heap import SymSeq, SymMap, SInt, SReal, SBool, SStr
from pyvc.rt import Tracked, TrackedDict
from pyvc.unit import NoopLogger

# oracle functions: what the external solver answers for the model with parameter k (uninterpreted => every fault position at once)
STATUS = z3.Function("status_of", INT, STR)
EXT = z3.Function("external_solution_for", INT, BOOL)        # a greedy / externally supplied solution exists for parameter k
OPT, INF = z3.StringVal("kOptimal"), z3.StringVal("kInfeasible")

A_SOLVER = ("A1 solver contract (trusted): status kOptimal => the returned point is feasible and optimal; kInfeasible => no feasible point; "
            "any other status (kTimeLimit, kIterationLimit, kUnknown, ...) proves nothing")


class UtilsStub:
    logger = NoopLogger()

    @staticmethod
    def fpid(g):
        return "<id>"


class TimeStub:
    @staticmethod
    def perf_counter():
        return Sym(core.ctx().fresh_const("clock", REAL))


class OptDict:
    """an arbitrary options dictionary: `get(key, default)` yields an arbitrary value of the default's type (stable per key)"""

    def __init__(self, name="opts", overrides=None, memo=None, present=None):
        from pyvc.rt import log_write
        log_write(self, "__init__")
        self.name = name
        self.memo = memo if memo is not None else {}
        self.present = present if present is not None else {}
        self.over = dict(overrides or {})

    def _fresh(self, key, like):
        c = core.ctx()
        nm = "%s[%s]" % (self.name, key)
        if isinstance(like, bool):
            return Sym(c.fresh_const(nm, BOOL))
        if isinstance(like, int):
            return Sym(c.fresh_const(nm, INT))
        if isinstance(like, float):
            return Sym(c.fresh_const(nm, REAL))
        if isinstance(like, Sym):
            return Sym(c.fresh_const(nm, like.t.sort()))
        return like

    def __contains__(self, key):
        if key in self.over:
            return True
        if key not in self.present:
            self.present[key] = Sym(core.ctx().fresh_const("%s.has[%s]" % (self.name, key), BOOL))
        return bool(self.present[key])

    def get(self, key, default=None):
        if key in self.over:
            return self.over[key]
        if key not in self.memo:
            self.memo[key] = self._fresh(key, default)
        return self.memo[key]

    def __getitem__(self, key):
        if key in self.over:
            return self.over[key]
        if key not in self.memo:
            self.memo[key] = Sym(core.ctx().fresh_const("%s[%s]" % (self.name, key), REAL))
        return self.memo[key]

    def __setitem__(self, key, v):
        from pyvc.rt import log_write
        log_write(self, key)
        self.over[key] = v

    def copy(self):
        return OptDict(self.name, self.over, self.memo, self.present)


class CopyStub:
    """copy.deepcopy / copy.copy: a fresh object with equal content (A3)"""

    @staticmethod
    def deepcopy(x):
        if isinstance(x, OptDict):
            return x.copy()
        if isinstance(x, (SymSeq, SymMap)):
            return x.copy()
        if isinstance(x, dict):
            return type(x)(x)
        if isinstance(x, list):
            return list(x)
        return x

    copy = deepcopy


class SubSolver(Tracked):
    def __init__(self, k, status=None):
        self.k = k
        self._status = status
        self.optimized = 0

    def optimize(self):
        object.__setattr__(self, "optimized", self.optimized + 1)

    def get_model_status(self):
        if self._status is not None:
            return self._status
        return Sym(STATUS(lift(self.k)))

    def get_values(self, vars_, **kw):
        return SymMap.fresh("values", SInt, SReal)

    def get_objective_value(self):
        return Sym(core.ctx().fresh_const("objective", REAL))


class SubModel(Tracked):
    """contract stub of a k-model (kFlowDecomp, kPathCover, ... ) as seen by a Min* search loop.
    solve():      is_solved() becomes  EXT(k) \\/ STATUS(k) = kOptimal      (contract proved on Abstract*Model.solve)
    get_solution(): requires is_solved()  (pre obligation), returns a dict with one list per key"""

    def __init__(self, k, route_key="paths", kwargs=None):
        self.k = k
        self.route_key = route_key
        self.kwargs = kwargs or {}
        self._solved = False
        self.solver = SubSolver(k)
        self.solve_statistics = TrackedDict()
        self.solve_calls = 0

    def solve(self):
        object.__setattr__(self, "solve_calls", self.solve_calls + 1)
        k = lift(self.k)
        object.__setattr__(self, "_solved", Sym(z3.Or(EXT(k), STATUS(k) == OPT)))
        return self._solved

    def is_solved(self):
        return self._solved

    def _req(self, what):
        c = core.ctx()
        s = self._solved
        c.prove("pre:%s-called-on-a-solved-submodel" % what, lift(s) if isinstance(s, Sym) else bool(s), prop="C13", kind="pre")

    def get_solution(self, **kw):
        self._req("get_solution")
        c = core.ctx()
        n = c.fresh_const("nroutes", INT)
        c.assume(z3.And(n >= 0, n <= lift(self.k)))
        d = {self.route_key: SymSeq.fresh("routes", SInt, n=n), "weights": SymSeq.fresh("weights", SReal, n=n)}
        return d

    def get_objective_value(self):
        self._req("get_objective_value")
        return Sym(core.ctx().fresh_const("sub_objective", REAL))

    def is_valid_solution(self, *a, **k):
        return True

    def get_lowerbound_k(self):
        return Sym(core.ctx().fresh_const("sub_lowerbound", INT))


class GivenWeightsModel(Tracked):
    """the optional `_given_weights_model`: solved or not (arbitrary), with an arbitrary number of non-empty routes"""

    def __init__(self, route_key="paths"):
        c = core.ctx()
        self.solved = Sym(c.fresh_const("gw_solved", BOOL))
        self.n = c.fresh_const("gw_nroutes", INT)
        c.assume(self.n >= 0)
        self.route_key = route_key
        self.solve_statistics = TrackedDict()
        self.solver = SubSolver(Sym(c.fresh_const("gw_k", INT)))
        self.k = Sym(self.n)

    def is_solved(self):
        return self.solved

    def get_solution(self, **kw):
        core.ctx().prove("pre:get_solution-called-on-a-solved-given-weights-model", self.solved.t, prop="C13", kind="pre")
        return {self.route_key: SymSeq.fresh("gw_routes", SInt, n=self.n), "weights": SymSeq.fresh("gw_weights", SReal, n=self.n)}


class GraphStub(Tracked):
    def __init__(self, name="G"):
        c = core.ctx()
        self.m = Sym(c.fresh_const(name + ".number_of_edges", INT))
        self.n = Sym(c.fresh_const(name + ".number_of_nodes", INT))
        c.assume(z3.And(self.m.t >= 0, self.n.t >= 2))

    def number_of_nodes(self):
        return self.n

    def number_of_edges(self):
        return self.m

    def get_condensed_paths(self, paths):
        return paths

    def get_number_of_nontrivial_SCCs(self): return 0
    def get_avg_size_of_non_trivial_SCC(self): return 0
    def get_size_of_largest_SCC(self): return 0


class ModelSelf(Tracked):
    """stub `self` of a Min* wrapper; fields the loops read"""

    def __init__(self, route_key="paths"):
        c = core.ctx()
        self.G = GraphStub()
        self.G_internal = GraphStub("G_internal")
        self.optimization_options = OptDict("optimization_options")
        self.solver_options = OptDict("solver_options")
        self.time_limit = Sym(c.fresh_const("time_limit", REAL))
        self.solve_time_start = None
        self._is_solved = False
        self._solution = None
        self.solve_statistics = TrackedDict()
        self.flow_attr = "flow"
        self.flow_attr_origin = Sym(c.fresh_const("flow_attr_origin", STR))
        self.weight_type = float
        for k in ("subpath_constraints", "subpath_constraints_coverage", "subpath_constraints_coverage_length", "length_attr", "edges_to_ignore",
                  "subset_constraints", "subset_constraints_coverage", "additional_starts", "additional_ends", "cover_type", "elements_to_ignore"):
            object.__setattr__(self, k, "<%s>" % k)
        self._given_weights_model = None
        self._mingenset_model = None
        self._user_args = {k: "<user %s>" % k for k in ("G", "cover_type", "subpath_constraints", "subset_constraints", "elements_to_ignore", "additional_starts", "additional_ends")}
        self.solve_time_ilp_total = Sym(c.fresh_const("ilp_total", REAL))
        self.lb = Sym(c.fresh_const("lowerbound_k", INT))
        self.created = []
        self.route_key = route_key

    @property
    def solve_time_elapsed(self):
        return Sym(core.ctx().fresh_const("elapsed", REAL))

    def get_lowerbound_k(self):
        return self.lb

    def set_solved(self):
        self._is_solved = True

    def is_solved(self):
        return self._is_solved

    def check_is_solved(self):
        s = self._is_solved
        if not (bool(s)):
            raise Exception("Model not solved.")


def factory(me, route_key):
    def make(**kw):
        m = SubModel(kw.get("k"), route_key, kw)
        me.created.append(m)
        return m
    return make


def all_before_infeasible(lo, hi, extra=None):
    """forall j in [lo, hi): the solver PROVED model j infeasible and no shortcut solution existed"""
    j = z3.Int(core.ctx().name("jk"))
    body = z3.And(STATUS(j) == INF, z3.Not(EXT(j)))
    if extra is not None:
        body = z3.And(body, extra(j))
    return z3.ForAll([j], z3.Implies(z3.And(j >= lift(lo), j < lift(hi)), body))


class DataRead(BaseException):
    pass


class Poisoned:
    """a `self` on which only the whitelisted attributes exist; anything else read is reported (DataRead)"""

    def __init__(self, **allowed):
        object.__setattr__(self, "_allowed", allowed)
        object.__setattr__(self, "_written", {})

    def __getattr__(self, k):
        a = object.__getattribute__(self, "_allowed")
        w = object.__getattribute__(self, "_written")
        if k in w:
            return w[k]
        if k in a:
            return a[k]
        raise DataRead(k)

    def __setattr__(self, k, v):
        object.__getattribute__(self, "_written")[k] = v
