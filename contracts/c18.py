"""C18 frame obligations: `modifies` clauses of every public constructor / solve / getter discharged by the frame checker (pyvc.frame),
plus `nostate` (no module/class-level mutable state is written) and `total` (getters return on every path) obligations."""
import ast
import os
import time

from pyvc import frame

P = "C18"
CLASSES = ["kFlowDecomp", "kLeastAbsErrors", "kMinPathError", "kPathCover", "MinFlowDecomp", "MinPathCover", "NumPathsOptimization",
           "kFlowDecompCycles", "kLeastAbsErrorsCycles", "kMinPathErrorCycles", "kPathCoverCycles", "MinFlowDecompCycles", "MinPathCoverCycles",
           "MinGenSet", "MinSetCover", "MinErrorFlow", "stDAG", "stDiGraph", "NodeExpandedDiGraph"]
IMMUTABLE_HINT = {"flow_attr", "k", "flow_attr_origin", "weight_type", "subpath_constraints_coverage", "subpath_constraints_coverage_length", "length_attr",
                  "subset_constraints_coverage", "cover_type", "total", "max_multiplicity", "lowerbound", "remove_complement_values", "remove_sums_of_two",
                  "sparsity_lambda", "few_flow_values_epsilon", "stop_on_first_feasible", "stop_on_delta_abs", "stop_on_delta_rel", "min_num_paths", "max_num_paths",
                  "time_limit", "model_type", "elements_to_ignore_percentile", "trusted_edges_for_safety_percentile", "node_flow_attr", "try_filling_in_missing_flow_attr"}


class FrameUnit:
    def __init__(self, cname):
        self.cname = cname
        self.name = "frame:%s" % cname
        self.props = [P]

    def execute(self, cross=False):
        t0 = time.time()
        res = dict(unit=self.name, file=None, function=self.cname + ".{__init__,solve,get_solution,get_objective_value,is_valid_solution}", props=[P], status="ok",
                   assumptions=["frame analysis: unknown library calls do not write their arguments unless the method name is a known mutator; "
                                "`x += <numeric-looking expression>` rebinds a number; element regions are tracked to depth 4"],
                   abstractions=["may-alias / may-mutate abstract interpretation, call strings bounded by depth %d" % frame.MAXDEPTH], obligations=[], paths=1, aborted_paths=0,
                   callee_contracts=[])
        try:
            r = frame.analyse_class(self.cname)
        except (LookupError, SyntaxError, RecursionError) as e:
            res.update(status="unsupported", reason="%s: %s" % (type(e).__name__, e), wall_s=round(time.time() - t0, 3))
            return res
        res["file"] = r["file"]
        res["sha256"] = None
        by = {}
        for f in r["findings"]:
            by.setdefault(f["param"].replace("[]", ""), []).append(f)
        for p in r["params"]:
            fs = by.pop(p, [])
            ob = dict(name="%s::frame:%s" % (self.name, p), base="frame:%s" % p, kind="frame", prop=P, line=None, backend="pyvc.frame", time_s=0.0,
                      info=dict(immutable_by_type=p in IMMUTABLE_HINT))
            if fs:
                ob["status"] = "failed"
                ob["model"] = {"mutation_sites": "; ".join("%s:%d %s [via %s]" % (f["file"], f["line"], f["what"], " | ".join(f["chain"][-2:])) for f in fs[:4])}
                ob["replay"] = _dynamic_replay(self.cname, p)
            else:
                ob["status"] = "discharged"
            res["obligations"].append(ob)
        for p, fs in by.items():         # shared mutable defaults and other non-parameter regions
            ob = dict(name="%s::nostate:%s" % (self.name, p), base="nostate:%s" % p, kind="frame", prop=P, line=None, backend="pyvc.frame", time_s=0.0, status="failed", info={},
                      model={"mutation_sites": "; ".join("%s:%d %s" % (f["file"], f["line"], f["what"]) for f in fs[:4])}, replay=None)
            res["obligations"].append(ob)
        res["obligations"].append(dict(name="%s::nostate:no-shared-default-object-written" % self.name, base="nostate:no-shared-default-object-written", kind="frame", prop=P,
                                       line=None, backend="pyvc.frame", time_s=0.0, status="discharged" if not by else "failed", info={}))
        res["wall_s"] = round(time.time() - t0, 3)
        res["solver_time_s"] = 0.0
        return res


def _dynamic_replay(cname, param):
    """replay of a failed frame obligation = deep-snapshot test of that constructor argument on the real class (rc/p_C18)"""
    try:
        from rc import p_C18
        fn = getattr(p_C18, "snapshot_replay", None)
        if fn is None:
            return None
        return fn(cname, param)
    except Exception as e:        # replay machinery failure is never a verdict
        return dict(ok=False, error="%s: %s" % (type(e).__name__, e))


class StaticUnit:
    """nostate / total obligations by a syntactic scan"""

    def __init__(self):
        self.name = "static:global-state-and-getter-totality"
        self.props = [P]

    def execute(self, cross=False):
        t0 = time.time()
        repo = frame.Repo()
        obls = []
        for rel, tree in sorted(repo.modules.items()):
            bad, soft = [], []
            classnames = {n.name for n in tree.body if isinstance(n, ast.ClassDef)}
            # module-level names bound to a mutable object (display, or any constructor call) ...
            modvars = {}
            for st_ in tree.body:
                tg, val = None, None
                if isinstance(st_, ast.Assign) and len(st_.targets) == 1 and isinstance(st_.targets[0], ast.Name):
                    tg, val = st_.targets[0].id, st_.value
                elif isinstance(st_, ast.AnnAssign) and isinstance(st_.target, ast.Name) and st_.value is not None:
                    tg, val = st_.target.id, st_.value
                if tg and isinstance(val, (ast.Dict, ast.List, ast.Set, ast.DictComp, ast.ListComp, ast.SetComp, ast.Call)):
                    modvars[tg] = st_.lineno
            # ... that a function mutates: x[k] = v, del x[k], x[k] += v, x.append / add / update / setdefault / pop / clear / ...
            MUT = {"append", "extend", "insert", "update", "add", "discard", "remove", "pop", "clear", "sort", "setdefault", "popitem", "reverse", "appendleft", "__setitem__"}
            for fn_ in [n for n in ast.walk(tree) if isinstance(n, (ast.FunctionDef, ast.AsyncFunctionDef))]:
                local = {a.arg for a in fn_.args.args + fn_.args.kwonlyargs} | {n.id for n in ast.walk(fn_) if isinstance(n, ast.Name) and isinstance(n.ctx, ast.Store)}
                for sub in ast.walk(fn_):
                    nm = None
                    if isinstance(sub, ast.Subscript) and isinstance(sub.ctx, (ast.Store, ast.Del)) and isinstance(sub.value, ast.Name):
                        nm = sub.value.id
                    elif isinstance(sub, ast.Call) and isinstance(sub.func, ast.Attribute) and sub.func.attr in MUT and isinstance(sub.func.value, ast.Name):
                        nm = sub.func.value.id
                    if nm in modvars and nm not in local:
                        soft.append("line %d: module-level object %s (bound at line %d) is mutated inside %s" % (sub.lineno, nm, modvars[nm], fn_.name))
            for node in ast.walk(tree):
                if isinstance(node, ast.Global):
                    bad.append("line %d: global %s" % (node.lineno, ",".join(node.names)))
                if isinstance(node, ast.FunctionDef):
                    for sub in ast.walk(node):
                        tgts = []
                        if isinstance(sub, ast.Assign):
                            tgts = sub.targets
                        elif isinstance(sub, ast.AugAssign):
                            tgts = [sub.target]
                        for t in tgts:
                            base = t
                            while isinstance(base, ast.Subscript):
                                base = base.value
                            if isinstance(base, ast.Attribute) and isinstance(base.value, ast.Name) and base.value.id in classnames:
                                bad.append("line %d: write to class attribute %s.%s inside %s" % (sub.lineno, base.value.id, base.attr, node.name))
            if rel.endswith("logging.py") or rel.endswith("__main__.py"):
                continue
            obls.append(dict(name="%s::nostate:%s" % (self.name, rel), base="nostate:%s" % rel, kind="frame", prop=P, line=None, backend="pyvc.frame(syntactic)", time_s=0.0,
                             status="discharged" if not bad else "failed", info={}, model={"sites": "; ".join(bad[:5])} if bad else None))
            # a module-level object mutated inside a function is shared state across models, but need not change any result (a pure memo table):
            # auxiliary clause - reported as UNDECIDED, the in-place-mutation and ordered-pair histories of the bounded part decide
            obls.append(dict(name="%s::nostate(auxiliary):no-module-level-object-is-mutated:%s" % (self.name, rel), base="nostate-aux:%s" % rel, kind="frame", prop=None, line=None,
                             backend="pyvc.frame(syntactic)", time_s=0.0, status="discharged" if not soft else "failed", info={}, model={"sites": "; ".join(soft[:5])} if soft else None))
        for cname in frame_classes_with_getters(repo):
            for g in ("get_solution", "get_objective_value"):
                m = repo.method(cname, g)
                if not m or m[1] != cname:
                    continue
                # only getters that COMPUTE and cache the solution lazily must end every path in a return; getters of classes whose solve()
                # stores the solution eagerly can only fall through in states excluded by the class invariant (solved => _solution is not None)
                lazy = any(isinstance(n, ast.Attribute) and isinstance(n.ctx, ast.Store) and n.attr == "_solution" for n in ast.walk(m[2]))
                if g == "get_solution" and not lazy:
                    continue
                ok, why = all_paths_return(m[2])
                obls.append(dict(name="%s::total:%s.%s" % (self.name, cname, g), base="total:%s.%s" % (cname, g), kind="frame", prop=P, line=m[2].lineno, backend="pyvc.frame(syntactic)",
                                 time_s=0.0, status="discharged" if ok else "failed", info={}, model=None if ok else {"reason": why}))
        return dict(unit=self.name, file="flowpaths/*", function="(all modules)", props=[P], status="ok", assumptions=[], abstractions=["syntactic scan"], obligations=obls,
                    paths=1, aborted_paths=0, callee_contracts=[], wall_s=round(time.time() - t0, 3), solver_time_s=0.0)


def frame_classes_with_getters(repo):
    return [c for c in CLASSES if c in repo.classes]


def all_paths_return(fn):
    """conservative: every path through the body ends in `return <expr>` or `raise`"""
    def ends(stmts):
        if not stmts:
            return False, "falls off the end"
        last = stmts[-1]
        if isinstance(last, ast.Return):
            return (last.value is not None and not (isinstance(last.value, ast.Constant) and last.value.value is None)), "bare return / return None at line %d" % last.lineno
        if isinstance(last, ast.Raise):
            return True, ""
        if isinstance(last, ast.If):
            a, wa = ends(last.body)
            b, wb = ends(last.orelse)
            return (a and b), (wa if not a else wb) or "if without else at line %d falls through" % last.lineno
        if isinstance(last, ast.Try):
            a, wa = ends(last.body + last.orelse) if last.orelse else ends(last.body)
            hs = [ends(h.body) for h in last.handlers]
            if last.finalbody:
                f, wf = ends(last.finalbody)
                if f:
                    return True, ""
            return a and all(h[0] for h in hs), wa or "except handler falls through"
        if isinstance(last, (ast.With,)):
            return ends(last.body)
        return False, "last statement at line %d is not a return/raise" % last.lineno
    for n in ast.walk(fn):
        if isinstance(n, ast.Return) and n is not fn and (n.value is None):
            return False, "bare return at line %d" % n.lineno
    return ends(fn.body)


# ---------------------------------------------------------------------------------------------
# repeat-call clause on the getters: once a solution is cached, get_solution() hands it out without writing anything to the model
# (so every later call - with whatever `remove_empty_*` flag - returns an equal result)

CACHED_GETTERS = [("flowpaths/kflowdecomp.py", "kFlowDecomp"), ("flowpaths/kleastabserrors.py", "kLeastAbsErrors"), ("flowpaths/kminpatherror.py", "kMinPathError"),
                  ("flowpaths/kpathcover.py", "kPathCover"), ("flowpaths/kflowdecompcycles.py", "kFlowDecompCycles"), ("flowpaths/kleastabserrorscycles.py", "kLeastAbsErrorsCycles"),
                  ("flowpaths/kminpatherrorcycles.py", "kMinPathErrorCycles"), ("flowpaths/kpathcovercycles.py", "kPathCoverCycles"),
                  ("flowpaths/minflowdecomp.py", "MinFlowDecomp"), ("flowpaths/minflowdecompcycles.py", "MinFlowDecompCycles"), ("flowpaths/minpathcover.py", "MinPathCover"),
                  ("flowpaths/minpathcovercycles.py", "MinPathCoverCycles"), ("flowpaths/numpathsoptimization.py", "NumPathsOptimization"),
                  ("flowpaths/mingenset.py", "MinGenSet"), ("flowpaths/minsetcover.py", "MinSetCover"), ("flowpaths/minerrorflow.py", "MinErrorFlow")]


def _cached_getter_unit(relpath, cls):
    from pyvc.unit import Unit, NoopLogger
    from contracts.stubs import Poisoned, DataRead

    class U:
        logger = NoopLogger()

    def h(c, f):
        import inspect
        cached = {"paths": [["a", "b"], []], "walks": [["a", "b"], []], "weights": [1, 0], "slacks": [0, 0], "edge_errors": {}, "graph": "G", "error": 0, "objective_value": 0}
        if cls in ("MinSetCover", "MinGenSet"):
            cached = [0, 1]                 # these classes cache a list (indices / numbers), not a dict
        snapshot = repr(cached)
        cleaned = {"cleaned": True}
        me = Poisoned(_solution=cached, _is_solved=True, is_solved=lambda: True, check_is_solved=lambda: None, _check_is_solved=lambda: None,
                      _remove_empty_paths=lambda s: cleaned, _remove_empty_walks=lambda s: cleaned, subsets=[["s0"], ["s1"]])
        nparams = len([p for p in inspect.signature(f).parameters]) - 1
        outcomes = []
        for flag in ([True, False] if nparams >= 1 else [None]):
            try:
                r = f(me) if flag is None else f(me, flag)
                outcomes.append("ok")
            except DataRead as e:
                outcomes.append("read self.%s although the solution is cached" % e.args[0])
            except Exception as e:
                outcomes.append("raised %s: %s" % (type(e).__name__, e))
        written = dict(object.__getattribute__(me, "_written"))
        c.prove("frame:cached-solution=>getter-returns-without-touching-other-state", all(o == "ok" for o in outcomes), prop=P, kind="frame", info=dict(outcomes=outcomes))
        c.prove("frame:cached-solution=>getter-writes-nothing-to-the-model(repeat calls agree)", not written and repr(cached) == snapshot, prop=P, kind="frame",
                info=dict(written=sorted(written)))
    return Unit(relpath, cls + ".get_solution", h, globs=dict(utils=U), props=[P], name="%s:%s.get_solution[cached]" % (relpath, cls),
                abstractions=["concrete pre-state: a cached solution object; every other attribute of self is poisoned, so the executions are representative of all such states"])


def all_units():
    from contracts import c13
    return [FrameUnit(c) for c in CLASSES] + [StaticUnit()] + [_cached_getter_unit(r, c) for r, c in CACHED_GETTERS] + \
        [u for u in c13.u_min_loops() if "C18" in u.props]
