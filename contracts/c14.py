"""Sidecar contracts for C14 (proof piece): AbstractWalkModelDiGraph._build_residual_graph_for_layer.

ensures   every vertex of G is a key of the residual graph;
          residual[u] is the concatenation, in G.edges() order, of one block per out-edge (u,v): v repeated round(sigma[(u,v,i)]) times
          (no block for edges without a solution entry or with a non-positive rounded value) - stated without a counting function:
              len(residual[u]) = S(u, |E|)                 S(u, j+1) = S(u, j) + [src(j)=u] * mult(j)
              residual[src(j)][p] = dst(j)  for every p in [S(src(j), j), S(src(j), j+1))
The walk reconstruction proper (conservation of multiplicities, closure of spliced sub-walks: an Euler-type argument) is decided by the
bounded enumeration rc/p_C14.py, NOT by this proof."""
import z3
from pyvc import core
from pyvc.core import Sym, lift, INT, REAL, BOOL, Unsupported
from pyvc.heap import SymSeq, SymMap, SInt, SReal, STuple
from pyvc.rt import Tracked, ROUND
from pyvc.unit import Unit, NoopLogger

P = "C14"
F = "flowpaths/abstractwalkmodeldigraph.py"
A2 = z3.ArraySort(INT, z3.ArraySort(INT, INT))


class UtilsStub:
    logger = NoopLogger()


class AdjMap:
    """dict vertex -> list of vertices with symbolic keys: KEYS (Array Int Bool), LEN (Array Int Int), ELT (Array Int (Array Int Int))"""

    def __init__(self, keys, length, elt):
        self.keys, self.length, self.elt = keys, length, elt

    @classmethod
    def empty(cls):
        return cls(z3.K(INT, z3.BoolVal(False)), z3.K(INT, z3.IntVal(0)), z3.K(INT, z3.K(INT, z3.IntVal(0))))

    @classmethod
    def fresh(cls, name):
        c = core.ctx()
        return cls(z3.Array(c.name(name + ".keys"), INT, BOOL), z3.Array(c.name(name + ".len"), INT, INT), z3.Const(c.name(name + ".elt"), A2))

    def __setitem__(self, v, lst):
        if not (isinstance(lst, list) and len(lst) == 0):
            raise Unsupported("AdjMap: only `d[v] = []` is modelled")
        v = lift(v)
        self.keys = z3.Store(self.keys, v, z3.BoolVal(True))
        self.length = z3.Store(self.length, v, z3.IntVal(0))

    def __getitem__(self, v):
        v = lift(v)
        if not core.ctx().decide(self.keys[v], "vertex-is-a-key-of-the-residual-graph"):
            raise KeyError("vertex not initialised in the residual graph")
        return AdjList(self, v)

    def __bool__(self):
        raise Unsupported("truth value of an abstract residual graph")


class AdjList:
    def __init__(self, m, v):
        self.m, self.v = m, v

    def append(self, x):
        m, v = self.m, self.v
        n = m.length[v]
        m.elt = z3.Store(m.elt, v, z3.Store(m.elt[v], n, lift(x)))
        m.length = z3.Store(m.length, v, n + 1)


def u_residual():
    st = {}
    SRC, DST = z3.Function("edge_src", INT, INT), z3.Function("edge_dst", INT, INT)
    NODE = z3.Function("node_at", INT, INT)
    HAS = z3.Function("has_solution_entry", INT, INT, BOOL)
    SIG = z3.Function("sigma", INT, INT, REAL)
    S = z3.Function("prefix_out_multiplicity", INT, INT, INT)       # S(u, j)

    def mult(j):
        r = ROUND(SIG(SRC(j), DST(j)))
        return z3.If(z3.And(HAS(SRC(j), DST(j)), r > 0), r, 0)

    def spec_axioms(c, nE):
        u, j = z3.Ints("su sj")
        c.assume(z3.ForAll([u], S(u, 0) == 0))
        c.assume(z3.ForAll([u, j], z3.Implies(z3.And(j >= 0, j < nE), S(u, j + 1) == S(u, j) + z3.If(SRC(j) == u, mult(j), 0))))
        x = z3.Real("rx")
        c.assume(z3.ForAll([x], z3.And(x - z3.ToReal(ROUND(x)) <= z3.RealVal("1/2"), z3.ToReal(ROUND(x)) - x <= z3.RealVal("1/2"))))      # A3: round()

    def blocks(m, d):
        j, p = z3.Ints("bj bp")
        return z3.ForAll([j, p], z3.Implies(z3.And(j >= 0, j < d, p >= S(SRC(j), j), p < S(SRC(j), j + 1)), m.elt[SRC(j)][p] == DST(j)))

    def inv0(ns, seq, done):
        m = ns["residual_graph"]
        d = lift(done)
        q, w = z3.Ints("iq iw")
        if not isinstance(m, AdjMap):
            raise Unsupported("residual_graph is not the modelled dict")
        return {"vertices-seen-so-far-are-keys-with-empty-lists": z3.ForAll([q], z3.Implies(z3.And(q >= 0, q < d), z3.And(m.keys[NODE(q)], m.length[NODE(q)] == 0))),
                "every-list-is-empty": z3.ForAll([w], m.length[w] == 0)}

    def inv1(ns, seq, done):
        m = ns["residual_graph"]
        d = lift(done)
        q, w = z3.Ints("jq jw")
        return {"every-vertex-is-a-key": z3.ForAll([q], z3.Implies(z3.And(q >= 0, q < st["nV"]), m.keys[NODE(q)])),
                "list-lengths-are-the-out-multiplicities-of-the-edges-seen-so-far": z3.ForAll([w], m.length[w] == S(w, d)),
                "each-seen-edge-contributed-its-block-of-copies-of-its-head": blocks(m, d)}

    def on_entry2(ns, it=None):
        m = ns["residual_graph"]
        st["m0"] = AdjMap(m.keys, m.length, m.elt)
        st["u"], st["v"] = lift(ns["u"]), lift(ns["v"])

    def inv2(ns, seq, done):
        m, m0 = ns["residual_graph"], st["m0"]
        u, v, d = st["u"], st["v"], lift(done)
        w, p = z3.Ints("kw kp")
        L0 = m0.length[u]
        return {"keys-unchanged": z3.ForAll([w], m.keys[w] == m0.keys[w]),
                "the-tail-list-grew-by-the-copies-appended-so-far": z3.And(m.length[u] == L0 + d, z3.ForAll([p], z3.Implies(z3.And(p >= L0, p < L0 + d), m.elt[u][p] == v))),
                "everything-else-unchanged": z3.And(z3.ForAll([w], z3.Implies(w != u, z3.And(m.length[w] == m0.length[w], m.elt[w] == m0.elt[w]))),
                                                    z3.ForAll([p], z3.Implies(p < L0, m.elt[u][p] == m0.elt[u][p])))}

    def h(c, f):
        class G(Tracked):
            pass

        class Me(Tracked):
            pass
        me = Me()
        nV, nE = c.fresh_const("nV", INT), c.fresh_const("nE", INT)
        c.assume(z3.And(nV >= 0, nE >= 0))
        st["nV"], st["nE"] = nV, nE
        spec_axioms(c, nE)
        # lemma (by induction on b): the prefix multiplicities S(u, .) are non-decreasing, so earlier blocks lie below later ones
        from contracts.sw import induct
        mu, ma = z3.Ints("mu ma")
        mono = lambda bb: z3.ForAll([mu, ma], z3.Implies(z3.And(ma >= 0, ma <= bb), S(mu, ma) <= S(mu, bb)))
        c.assume(induct(c, "prefix-multiplicities-are-monotone", mono, nE, prop=P))
        a, b, q = z3.Ints("ea eb eq")
        # G.edges() lists each edge of a simple digraph once, and both endpoints are nodes of G
        c.assume(z3.ForAll([a, b], z3.Implies(z3.And(0 <= a, a < b, b < nE), z3.Or(SRC(a) != SRC(b), DST(a) != DST(b)))))
        c.assume(z3.ForAll([a], z3.Implies(z3.And(a >= 0, a < nE), z3.Exists([q], z3.And(q >= 0, q < nV, NODE(q) == SRC(a))))))
        g = G()
        g.nodes = lambda: SymSeq(nV, lambda j: Sym(NODE(lift(j))), SInt, "nodes")
        g.edges = lambda: SymSeq(nE, lambda j: (Sym(SRC(lift(j))), Sym(DST(lift(j)))), STuple(SInt, SInt), "edges")
        me.G = g
        layer = Sym(z3.Int("layer_i"))
        me.edge_vars_sol = SymMap(STuple(SInt, SInt, SInt), SReal, lambda key: z3.And(HAS(lift(key[0]), lift(key[1])), lift(key[2]) == layer.t),
                                  lambda key: Sym(SIG(lift(key[0]), lift(key[1]))), "edge_vars_sol")
        m = f(me, layer)
        if not isinstance(m, AdjMap):
            c.prove("post:returns-the-residual-dict", False, prop=P)
            return
        w = z3.Int("pw")
        c.prove("post:every-vertex-of-G-is-a-key", z3.ForAll([q], z3.Implies(z3.And(q >= 0, q < nV), m.keys[NODE(q)])), prop=P)
        c.prove("post:list-length=sum-of-rounded-multiplicities-of-the-out-edges", z3.ForAll([w], m.length[w] == S(w, nE)), prop=P)
        c.prove("post:each-edge-contributes-round(sigma)-copies-of-its-head-to-its-tail's-list", blocks(m, nE), prop=P)

    loops = {0: dict(inv=inv0, prop=P, havoc={"residual_graph": lambda old: AdjMap.fresh("rg0")}),
             1: dict(inv=inv1, prop=P, havoc={"residual_graph": lambda old: AdjMap.fresh("rg1")}, keep=("edge_key", "multiplicity", "_")),
             2: dict(inv=inv2, prop=P, on_entry=on_entry2, havoc={"residual_graph": lambda old: AdjMap.fresh("rg2")})}
    u = Unit(F, "AbstractWalkModelDiGraph._build_residual_graph_for_layer", h, globs=dict(utils=UtilsStub, str=lambda x: x), loops=loops, props=[P],
             assumptions=["A3 round(x) is an integer within 1/2 of x", "vertices are integers; str(v) = v (node names are strings)", "G.edges() enumerates each edge of the simple digraph once"],
             literals=dict(dict=AdjMap.empty))
    return u


# ---------------------------------------------------------------------------------------------
# Hierholzer reconstruction: CONSERVATION (no traversal is invented; every traversal consumes one decided copy of its edge)
#
# abstraction: a residual list is seen through the multiset of its elements (M[u][v] copies of v in residual[u], TOT[u] its length); pop()
# returns SOME element of a non-empty list (whatever the order: an over-approximation of "the last one").  A walk list is seen through its first
# and last element, its length, the set of vertices on it and the multiset P of its consecutive pairs.  Ghost `taken` counts the popped edges.

CNT = z3.ArraySort(INT, z3.ArraySort(INT, INT))


def _inc(A, u, v, d=1):
    return z3.Store(A, u, z3.Store(A[u], v, A[u][v] + d))


class ResGraph:
    def __init__(self, M, TOT):
        self.M, self.TOT = M, TOT

    @classmethod
    def fresh(cls, name):
        c = core.ctx()
        return cls(z3.Const(c.name(name + ".M"), CNT), z3.Array(c.name(name + ".len"), INT, INT))

    def copy(self):
        return ResGraph(self.M, self.TOT)

    def __getitem__(self, v):
        return ResList(self, lift(v))

    def items(self):
        return _Items(self)

    def values(self):
        c = core.ctx()
        n = c.fresh_const("n_vertices", INT)
        c.assume(n >= 0)
        VAT = z3.Function(c.name("vertex_at"), INT, INT)
        g = self
        return SymSeq(n, lambda j: ResList(g, VAT(lift(j))), None, "values")


class _Items:
    dictcomp_source = True

    def __init__(self, g): self.g = g


class ResList:
    def __init__(self, g, v): self.g, self.v = g, v

    def __bool__(self):
        return core.ctx().decide(self.g.TOT[self.v] > 0, "residual-list-non-empty")

    def pop(self):
        c, g, v = core.ctx(), self.g, self.v
        c.prove("pre:pop-only-from-a-non-empty-list", g.TOT[v] > 0, kind="pre")
        w = c.fresh_const("popped", INT)
        c.assume(g.M[v][w] >= 1)                       # a non-empty list yields one of its elements (meta-level: TOT[v] = sum_w M[v][w])
        g.M, g.TOT = _inc(g.M, v, w, -1), z3.Store(g.TOT, v, g.TOT[v] - 1)
        return Sym(w)


class WalkList:
    """a python list of vertices seen through: first, last, n, the vertices on it (ON), the multiset of its consecutive pairs (P)"""
    def __init__(self, first, last, n, ON, P):
        self.first, self.last, self.n, self.ON, self.P = first, last, n, ON, P

    @classmethod
    def of(cls, elts):
        if len(elts) != 1:
            raise Unsupported("list display with %d elements" % len(elts))
        x = lift(elts[0])
        return cls(x, x, z3.IntVal(1), z3.Store(z3.K(INT, z3.BoolVal(False)), x, z3.BoolVal(True)), z3.K(INT, z3.K(INT, z3.IntVal(0))))

    @classmethod
    def fresh(cls, name):
        c = core.ctx()
        w = cls(c.fresh_const(name + ".first", INT), c.fresh_const(name + ".last", INT), c.fresh_const(name + ".len", INT),
                z3.Array(c.name(name + ".on"), INT, BOOL), z3.Const(c.name(name + ".pairs"), CNT))
        c.assume(z3.And(w.n >= 1, w.ON[w.first], w.ON[w.last]))
        return w

    def append(self, x):
        x = lift(x)
        self.P, self.ON, self.last, self.n = _inc(self.P, self.last, x), z3.Store(self.ON, x, z3.BoolVal(True)), x, self.n + 1

    def index(self, x):
        c = core.ctx()
        c.prove("pre:index()-of-a-vertex-that-is-on-the-walk", self.ON[lift(x)], kind="pre")
        i = c.fresh_const("position", INT)
        c.assume(z3.And(i >= 0, i < self.n))
        return _Pos(self, lift(x), i)

    def __getitem__(self, k):
        if isinstance(k, slice):
            return _Slice(self, k)
        if k == 0:
            return Sym(self.first)
        if k == -1:
            return Sym(self.last)
        raise Unsupported("walk[%r]" % (k,))

    def __setitem__(self, k, tail):
        # walk[p+1:p+1] = closed_walk[1:]  with walk[p] == closed_walk[0]
        if not (isinstance(k, slice) and isinstance(k.start, _Pos1) and isinstance(k.stop, _Pos1) and k.start.pos is k.stop.pos and isinstance(tail, _Slice) and tail.is_tail):
            raise Unsupported("walk slice assignment of another shape")
        pos, cw = k.start.pos, tail.w
        c = core.ctx()
        c.prove("pre:the-closed-walk-is-spliced-in-right-after-an-occurrence-of-its-own-start-vertex", z3.And(z3.BoolVal(pos.w is self), pos.x == cw.first), kind="pre")
        closed = cw.last == cw.first
        c.closed_flags = getattr(c, "closed_flags", []) + [closed]
        x, a = z3.Ints("sx sa")
        # if the spliced walk is closed the pairs add up; otherwise the pair that followed the insertion point is replaced (conservation is then not claimed)
        newP = z3.Const(c.name("pairs_after_splice"), CNT)
        c.assume(z3.Implies(closed, z3.ForAll([x, a], newP[x][a] == self.P[x][a] + cw.P[x][a])))
        self.P = newP
        self.ON = z3.Lambda([x], z3.Or(self.ON[x], cw.ON[x]))
        self.n = self.n + cw.n - 1
        self.last = z3.If(closed, self.last, z3.Int(c.name("last_after_open_splice")))

    def __eq__(self, other):
        if isinstance(other, list) and len(other) == 1:
            return core.ctx().decide(z3.And(self.n == 1, self.first == lift(other[0])), "walk-is-just-the-source")
        return NotImplemented

    __hash__ = None


class _Pos:
    def __init__(self, w, x, i): self.w, self.x, self.i = w, x, i
    def __add__(self, k):
        if k == 1:
            return _Pos1(self)
        raise Unsupported("position arithmetic")


class _Pos1:
    def __init__(self, pos): self.pos = pos


class _Slice:
    def __init__(self, w, k):
        self.w = w
        self.is_tail = (k.start == 1 and k.stop is None and k.step is None)
        self.is_inner = (k.start == 1 and k.stop == -1 and k.step is None)


def _hier_globs():
    def len_(x):
        from pyvc.rt import BUILTINS
        if isinstance(x, WalkList):
            return Sym(x.n)
        if isinstance(x, ResList):
            return Sym(x.g.TOT[x.v])
        return BUILTINS["len"](x)
    return dict(utils=UtilsStub, len=len_)


def _inplace(names):
    """the residual graph and the stack are objects the caller also holds: a loop havocs their FIELDS in place (never rebinds the local name)"""
    def fresh_at(old):
        fn = z3.Function(core.ctx().name("stack_at"), INT, INT)
        return lambda j: Sym(fn(lift(j)))
    out = []
    if "graph" in names:
        out += [(("graph", "M"), lambda old: z3.Const(core.ctx().name("M"), CNT)), (("graph", "TOT"), lambda old: z3.Array(core.ctx().name("len"), INT, INT))]
    if "stack" in names:
        out += [(("stack", "n"), lambda old: _nonneg(core.ctx().fresh_const("stack_len", INT))), (("stack", "_at"), fresh_at)]
    return out


def _nonneg(t):
    core.ctx().assume(t >= 0)
    return t


def _stack_ok(stack, ON):
    j = z3.Int("sj")
    return z3.ForAll([j], z3.Implies(z3.And(j >= 0, j < stack.n), ON[lift(stack._at(j))]))


def u_closed_walk():
    """_build_closed_walk_from_vertex(graph, start, stack): the pairs of the returned walk are exactly the edges popped from `graph`; it starts at
    `start`; it ends at `start` again (closed) or at a vertex whose residual list is empty; everything pushed on `stack` lies on it"""
    st = {}

    def inv(ns, seq, done):
        g, cw, stack = ns["graph"], ns["closed_walk"], ns["stack"]
        x, a = z3.Ints("ix ia")
        j = z3.Int("ij")
        return {"residual-multiplicities+pairs-of-the-walk-so-far=initial-multiplicities": z3.ForAll([x, a], g.M[x][a] + cw.P[x][a] == st["M0"][x][a]),
                "the-walk-starts-at-start_vertex-and-ends-at-the-current-vertex": z3.And(cw.first == st["start"], cw.last == lift(ns["current_vertex"]), cw.n >= 1, cw.ON[cw.first]),
                "stack=old-stack+vertices-of-the-walk": z3.And(stack.n >= st["s0"], z3.ForAll([j], z3.Implies(z3.And(j >= st["s0"], j < stack.n), cw.ON[lift(stack._at(j))])),
                                                              z3.ForAll([j], z3.Implies(z3.And(j >= 0, j < st["s0"]), lift(stack._at(j)) == lift(st["stack0"]._at(j)))))}

    def h(c, f):
        class Me(Tracked):
            pass
        g = ResGraph.fresh("graph")
        x, a = z3.Ints("hx ha")
        c.assume(z3.ForAll([x, a], g.M[x][a] >= 0))
        start = c.fresh_const("start_vertex", INT)
        stack = SymSeq.fresh("stack", SInt)
        st.update(M0=g.M, start=start, s0=stack.n, stack0=stack.copy())
        cw = f(Me(), g, Sym(start), stack)
        if not isinstance(cw, WalkList):
            c.prove("post:returns-the-walk-list", False, prop=P)
            return
        j = z3.Int("pj")
        c.prove("post:CONSERVATION-the-consecutive-pairs-of-the-returned-walk-are-exactly-the-edges-removed-from-the-residual-graph-(with-multiplicity)",
                z3.ForAll([x, a], g.M[x][a] + cw.P[x][a] == st["M0"][x][a]), prop=P)
        c.prove("post:starts-at-start_vertex", cw.first == start, prop=P)
        c.prove("post:ends-closed-at-start_vertex-or-stuck-at-a-vertex-without-a-remaining-out-edge", z3.Or(z3.And(cw.last == start, cw.n >= 2), g.TOT[cw.last] <= 0), prop=P)
        c.prove("post:whatever-was-pushed-on-the-stack-lies-on-the-returned-walk;-older-entries-untouched",
                z3.And(stack.n >= st["s0"], z3.ForAll([j], z3.Implies(z3.And(j >= st["s0"], j < stack.n), cw.ON[lift(stack._at(j))])),
                       z3.ForAll([j], z3.Implies(z3.And(j >= 0, j < st["s0"]), lift(stack._at(j)) == lift(st["stack0"]._at(j))))), prop=P)

    loops = {0: dict(inv=inv, prop=P, havoc={"closed_walk": lambda old: WalkList.fresh("closed_walk")}, keep=("next_vertex", "graph", "stack"), modifies=_inplace(("graph", "stack")))}
    return Unit(F, "AbstractWalkModelDiGraph._build_closed_walk_from_vertex", h, globs=_hier_globs(), loops=loops, props=[P], literals=dict(list_of=WalkList.of),
                assumptions=["a residual list is abstracted to the multiset of its elements: pop() returns some element of a non-empty list (any order)",
                             "termination of the while loop is not claimed (each iteration removes one edge: a variant exists, not checked)"])


def u_reconstruct():
    """_reconstruct_eulerian_walk: CONSERVATION through the main walk and every splice, under the hypothesis that every spliced sub-walk is closed
    (which balance at inner nodes guarantees: the Euler argument, NOT proved here; the callee proves `closed or stuck`)."""
    st = {}

    def all_closed():
        fl = getattr(core.ctx(), "closed_flags", [])
        return z3.And(*fl) if fl else z3.BoolVal(True)

    def base(g, walk):
        x, a = z3.Ints("bx ba")
        return z3.ForAll([x, a], g.M[x][a] + walk.P[x][a] == st["M0"][x][a])

    def inv0(ns, seq, done):
        g, walk, stack = ns["graph"], ns["walk"], ns["stack"]
        return {"pairs-of-the-walk=edges-popped": base(g, walk),
                "walk-starts-at-the-source-and-ends-at-the-current-vertex": z3.And(walk.first == st["src"], walk.last == lift(ns["current_vertex"]), walk.n >= 1, walk.ON[walk.first]),
                "every-stack-entry-is-on-the-walk": _stack_ok(stack, walk.ON)}

    def inv1(ns, seq, done):
        g, walk, stack = ns["graph"], ns["walk"], ns["stack"]
        return {"if-every-spliced-sub-walk-was-closed:-pairs-of-the-walk=edges-popped": z3.Implies(st["closed_so_far"](), base(g, walk)),
                "walk-starts-at-the-source": z3.And(walk.first == st["src"], walk.n >= 1),
                "every-stack-entry-is-on-the-walk": _stack_ok(stack, walk.ON)}

    def h(c, f):
        c.closed_flags = []
        flag = z3.Bool("every_earlier_splice_was_closed")
        st["closed_so_far"] = lambda: z3.And(flag, *getattr(core.ctx(), "closed_flags", []))

        class G:
            source, sink = Sym(z3.Int("source")), Sym(z3.Int("sink"))

        class Me(Tracked):
            pass
        me = Me()
        me.G = G()
        g0 = ResGraph.fresh("residual_graph")
        x, a = z3.Ints("hx ha")
        c.assume(z3.ForAll([x, a], g0.M[x][a] >= 0))
        st.update(M0=g0.M, src=G.source.t)

        def callee(graph, start, stack):
            """CONTRACT of _build_closed_walk_from_vertex (its own unit)"""
            cc = core.ctx()
            cw = WalkList.fresh("closed_walk")
            M1, T1 = z3.Const(cc.name("M_after"), CNT), z3.Array(cc.name("len_after"), INT, INT)
            y, b, j = z3.Ints("cy cb cj")
            cc.assume(z3.ForAll([y, b], M1[y][b] + cw.P[y][b] == graph.M[y][b]))
            cc.assume(cw.first == lift(start))
            cc.assume(z3.Or(z3.And(cw.last == lift(start), cw.n >= 2), T1[cw.last] <= 0))
            new = SymSeq.fresh("stack_after", SInt)
            cc.assume(z3.And(new.n >= stack.n, z3.ForAll([j], z3.Implies(z3.And(j >= stack.n, j < new.n), cw.ON[lift(new._at(j))])),
                             z3.ForAll([j], z3.Implies(z3.And(j >= 0, j < stack.n), lift(new._at(j)) == lift(stack._at(j))))))
            graph.M, graph.TOT = M1, T1
            stack.n, stack._at = new.n, new._at
            return cw
        me._build_closed_walk_from_vertex = callee
        r = f(me, g0, Sym(z3.Int("layer_i")))
        st["result"] = r
        gfin, wfin = st.get("graph_final"), st.get("walk_final")
        c.prove("post:the-caller's-residual-graph-is-not-modified-(the-reconstruction-works-on-a-copy)", z3.BoolVal(g0.M is st["M0"]), prop=P)

    def at_exit1(ns, seq):
        c = core.ctx()
        g, walk = ns["graph"], ns["walk"]
        x, a = z3.Ints("px pa")
        c.prove("post:CONSERVATION-(if-every-spliced-sub-walk-was-closed)-every-consecutive-pair-of-the-reconstructed-walk-consumed-one-decided-copy-of-that-edge:-pairs=initial-remaining",
                z3.Implies(st["closed_so_far"](), z3.ForAll([x, a], walk.P[x][a] == st["M0"][x][a] - g.M[x][a])), prop=P)
        c.prove("post:the-walk-starts-at-the-source", walk.first == st["src"], prop=P)

    def dictcomp(fn, it, flt):
        return it.g.copy()
    hv = dict(walk=lambda old: WalkList.fresh("walk"))
    loops = {0: dict(inv=inv0, prop=P, havoc=hv, keep=("next_vertex", "graph", "stack"), modifies=_inplace(("graph", "stack"))),
             1: dict(inv=inv1, prop=P, havoc=hv, at_exit=at_exit1, keep=("potential_vertex", "closed_walk_start_idx", "closed_walk", "graph", "stack"), modifies=_inplace(("graph", "stack")))}
    return Unit(F, "AbstractWalkModelDiGraph._reconstruct_eulerian_walk", h, globs=_hier_globs(), loops=loops, props=[P], literals=dict(list_of=WalkList.of, dictcomp=dictcomp, list=lambda: SymSeq(z3.IntVal(0), lambda j: Sym(z3.IntVal(0)), SInt, "stack")),
                callee_contracts=["AbstractWalkModelDiGraph._build_closed_walk_from_vertex (own unit)"],
                assumptions=["a residual list is abstracted to the multiset of its elements (pop() returns some element)",
                             "Euler argument NOT proved: that every spliced sub-walk is closed and that no edge is left over needs balance and connectivity of the multiplicities; "
                             "the conservation clause is stated under `every spliced sub-walk was closed`; completeness (all edges used) is decided by the exhaustive bounded enumeration",
                             "walk.index(v) returns some occurrence of v (the first one in python; irrelevant for the multiset of pairs)"])


def u_solution_walks():
    """get_solution_walks: the glue between the solver values and the two functions above.
    ensures: one entry per layer 0..k-1, in order; entry i is what _reconstruct_eulerian_walk returns for the residual graph of layer i (or [] when
    that residual graph is empty as a dict); the edge values are fetched from the solver once, only if none are cached, and for exactly edge_vars."""
    st = {}

    def inv(ns, seq, done):
        w, d = ns["walks"], lift(done)
        j = z3.Int("jw")
        if not isinstance(w, SymSeq):
            return {"one-walk-per-layer-so-far": z3.BoolVal(len(w) == 0) if True else None, "no-layer-yet": d == 0}
        return {"one-walk-per-layer-so-far,-walk-i-is-the-reconstruction-of-layer-i": z3.And(w.n == d, z3.ForAll([j], z3.Implies(z3.And(j >= 0, j < d), lift(w._at(j)) == st["want"](j))))}

    def mk(cached):
        def h(c, f):
            class Me(Tracked):
                pass
            me = Me()
            k = c.fresh_const("k", INT)
            c.assume(k >= 0)
            WALK = z3.Function("reconstructed_walk_id_of_layer", INT, INT)
            EMPTY = z3.Function("residual_dict_of_layer_is_empty", INT, BOOL)
            EMPTYWALK = c.fresh_const("the_empty_walk", INT)
            st.update(WALK=WALK, empty=EMPTYWALK, first=True, want=lambda j: z3.If(EMPTY(j), EMPTYWALK, WALK(j)))
            calls = []
            me.k = Sym(k)

            class Res:
                def __init__(self, i): self.i = lift(i)
                def __bool__(self): return bool(Sym(z3.Not(EMPTY(self.i))))
            me._build_residual_graph_for_layer = lambda i: Res(i)

            def rec(res, i):
                c.prove("pre:the-walk-of-layer-i-is-reconstructed-from-the-residual-graph-of-layer-i", res.i == lift(i), prop=P, kind="pre")
                return Sym(WALK(lift(i)))
            me._reconstruct_eulerian_walk = rec
            me.edge_vars = "EDGE-VARS"
            me.edge_vars_sol = {("a", "b", 0): 1.0} if cached else {}

            class Solver:
                def get_values(self, vs, **kw):
                    calls.append(vs)
                    return {("x", "y", 0): 2.0}
            me.solver = Solver()
            walks = f(me)
            c.prove("post:the-values-decoded-are-the-solver's-values-of-exactly-the-edge-variables-(or-the-cached-ones)",
                    z3.BoolVal(all(x == "EDGE-VARS" for x in calls) and me.edge_vars_sol in ({("x", "y", 0): 2.0}, {("a", "b", 0): 1.0}) and (cached or calls == ["EDGE-VARS"])), prop=P)
            c.prove("post(auxiliary):solver-values-are-fetched-only-if-none-are-cached", z3.BoolVal(calls == ([] if cached else ["EDGE-VARS"])), prop=None)
            if not isinstance(walks, SymSeq):
                c.prove("post:no-layers=>no-walks", z3.And(k == 0, z3.BoolVal(len(walks) == 0)), prop=P)
                return
            j = z3.Int("pj")
            c.prove("post:one-walk-per-layer,-in-layer-order,-each-the-reconstruction-of-its-own-layer",
                    z3.And(walks.n == k, z3.ForAll([j], z3.Implies(z3.And(j >= 0, j < k), lift(walks._at(j)) == st["want"](j)))), prop=P)
        return h

    def new_list():
        # the first `[]` is the result list; a later one is the literal empty walk appended for an empty residual dict
        if st.get("first"):
            st["first"] = False
            return SymSeq(z3.IntVal(0), lambda j: Sym(z3.IntVal(0)), SInt, "walks")
        return Sym(st["empty"])

    hv = lambda old: SymSeq.fresh("walks", SInt)
    loops = {0: dict(inv=inv, prop=P, havoc={"walks": hv}, keep=("residual_graph", "walk"))}
    out = []
    for cached in (False, True):
        out.append(Unit(F, "AbstractWalkModelDiGraph.get_solution_walks", mk(cached), globs=dict(utils=UtilsStub), loops=loops, props=[P, "C01"], literals=dict(list=new_list),
                        name="%s:AbstractWalkModelDiGraph.get_solution_walks[%s]" % (F, "values cached" if cached else "values not cached"),
                        callee_contracts=["_build_residual_graph_for_layer, _reconstruct_eulerian_walk (own units)", "SolverWrapper.get_values (C12)"],
                        abstractions=["a reconstructed walk is an opaque value per layer; the branch for an empty residual *dict* appends a literal [] (see unit text)"]))
    return out


def all_units():
    return [u_residual(), u_closed_walk(), u_reconstruct()] + u_solution_walks()
