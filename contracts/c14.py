"""Sidecar contracts for C14 (proof piece): AbstractWalkModelDiGraph._build_residual_graph_for_layer.

ensures   every vertex of G is a key of the residual graph;
          residual[u] is the concatenation, in G.edges() order, of one block per out-edge (u,v): v repeated round(sigma[(u,v,i)]) times
          (no block for edges without a solution entry or with a non-positive rounded value) - stated without a counting function:
              len(residual[u]) = S(u, |E|)                 S(u, j+1) = S(u, j) + [src(j)=u] * mult(j)
              residual[src(j)][p] = dst(j)  for every p in [S(src(j), j), S(src(j), j+1))
The walk reconstruction proper (conservation of multiplicities, closure of spliced sub-walks: an Euler-type argument) is decided by the
bounded enumeration rc/p_C14.py, NOT by this proof."""
import z3
from pyvc import core
from pyvc.core import Sym, lift, INT, REAL, BOOL, Unsupported
from pyvc.heap import SymSeq, SymMap, SInt, SReal, STuple
from pyvc.rt import Tracked, ROUND
from pyvc.unit import Unit, NoopLogger

P = "C14"
F = "flowpaths/abstractwalkmodeldigraph.py"
A2 = z3.ArraySort(INT, z3.ArraySort(INT, INT))


class UtilsStub:
    logger = NoopLogger()


class AdjMap:
    """dict vertex -> list of vertices with symbolic keys: KEYS (Array Int Bool), LEN (Array Int Int), ELT (Array Int (Array Int Int))"""

    def __init__(self, keys, length, elt):
        self.keys, self.length, self.elt = keys, length, elt

    @classmethod
    def empty(cls):
        return cls(z3.K(INT, z3.BoolVal(False)), z3.K(INT, z3.IntVal(0)), z3.K(INT, z3.K(INT, z3.IntVal(0))))

    @classmethod
    def fresh(cls, name):
        c = core.ctx()
        return cls(z3.Array(c.name(name + ".keys"), INT, BOOL), z3.Array(c.name(name + ".len"), INT, INT), z3.Const(c.name(name + ".elt"), A2))

    def __setitem__(self, v, lst):
        if not (isinstance(lst, list) and len(lst) == 0):
            raise Unsupported("AdjMap: only `d[v] = []` is modelled")
        v = lift(v)
        self.keys = z3.Store(self.keys, v, z3.BoolVal(True))
        self.length = z3.Store(self.length, v, z3.IntVal(0))

    def __getitem__(self, v):
        v = lift(v)
        if not core.ctx().decide(self.keys[v], "vertex-is-a-key-of-the-residual-graph"):
            raise KeyError("vertex not initialised in the residual graph")
        return AdjList(self, v)

    def __bool__(self):
        raise Unsupported("truth value of an abstract residual graph")


class AdjList:
    def __init__(self, m, v):
        self.m, self.v = m, v

    def append(self, x):
        m, v = self.m, self.v
        n = m.length[v]
        m.elt = z3.Store(m.elt, v, z3.Store(m.elt[v], n, lift(x)))
        m.length = z3.Store(m.length, v, n + 1)


def u_residual():
    st = {}
    SRC, DST = z3.Function("edge_src", INT, INT), z3.Function("edge_dst", INT, INT)
    NODE = z3.Function("node_at", INT, INT)
    HAS = z3.Function("has_solution_entry", INT, INT, BOOL)
    SIG = z3.Function("sigma", INT, INT, REAL)
    S = z3.Function("prefix_out_multiplicity", INT, INT, INT)       # S(u, j)

    def mult(j):
        r = ROUND(SIG(SRC(j), DST(j)))
        return z3.If(z3.And(HAS(SRC(j), DST(j)), r > 0), r, 0)

    def spec_axioms(c, nE):
        u, j = z3.Ints("su sj")
        c.assume(z3.ForAll([u], S(u, 0) == 0))
        c.assume(z3.ForAll([u, j], z3.Implies(z3.And(j >= 0, j < nE), S(u, j + 1) == S(u, j) + z3.If(SRC(j) == u, mult(j), 0))))
        x = z3.Real("rx")
        c.assume(z3.ForAll([x], z3.And(x - z3.ToReal(ROUND(x)) <= z3.RealVal("1/2"), z3.ToReal(ROUND(x)) - x <= z3.RealVal("1/2"))))      # A3: round()

    def blocks(m, d):
        j, p = z3.Ints("bj bp")
        return z3.ForAll([j, p], z3.Implies(z3.And(j >= 0, j < d, p >= S(SRC(j), j), p < S(SRC(j), j + 1)), m.elt[SRC(j)][p] == DST(j)))

    def inv0(ns, seq, done):
        m = ns["residual_graph"]
        d = lift(done)
        q, w = z3.Ints("iq iw")
        if not isinstance(m, AdjMap):
            raise Unsupported("residual_graph is not the modelled dict")
        return {"vertices-seen-so-far-are-keys-with-empty-lists": z3.ForAll([q], z3.Implies(z3.And(q >= 0, q < d), z3.And(m.keys[NODE(q)], m.length[NODE(q)] == 0))),
                "every-list-is-empty": z3.ForAll([w], m.length[w] == 0)}

    def inv1(ns, seq, done):
        m = ns["residual_graph"]
        d = lift(done)
        q, w = z3.Ints("jq jw")
        return {"every-vertex-is-a-key": z3.ForAll([q], z3.Implies(z3.And(q >= 0, q < st["nV"]), m.keys[NODE(q)])),
                "list-lengths-are-the-out-multiplicities-of-the-edges-seen-so-far": z3.ForAll([w], m.length[w] == S(w, d)),
                "each-seen-edge-contributed-its-block-of-copies-of-its-head": blocks(m, d)}

    def on_entry2(ns, it=None):
        m = ns["residual_graph"]
        st["m0"] = AdjMap(m.keys, m.length, m.elt)
        st["u"], st["v"] = lift(ns["u"]), lift(ns["v"])

    def inv2(ns, seq, done):
        m, m0 = ns["residual_graph"], st["m0"]
        u, v, d = st["u"], st["v"], lift(done)
        w, p = z3.Ints("kw kp")
        L0 = m0.length[u]
        return {"keys-unchanged": z3.ForAll([w], m.keys[w] == m0.keys[w]),
                "the-tail-list-grew-by-the-copies-appended-so-far": z3.And(m.length[u] == L0 + d, z3.ForAll([p], z3.Implies(z3.And(p >= L0, p < L0 + d), m.elt[u][p] == v))),
                "everything-else-unchanged": z3.And(z3.ForAll([w], z3.Implies(w != u, z3.And(m.length[w] == m0.length[w], m.elt[w] == m0.elt[w]))),
                                                    z3.ForAll([p], z3.Implies(p < L0, m.elt[u][p] == m0.elt[u][p])))}

    def h(c, f):
        class G(Tracked):
            pass

        class Me(Tracked):
            pass
        me = Me()
        nV, nE = c.fresh_const("nV", INT), c.fresh_const("nE", INT)
        c.assume(z3.And(nV >= 0, nE >= 0))
        st["nV"], st["nE"] = nV, nE
        spec_axioms(c, nE)
        # lemma (by induction on b): the prefix multiplicities S(u, .) are non-decreasing, so earlier blocks lie below later ones
        from contracts.sw import induct
        mu, ma = z3.Ints("mu ma")
        mono = lambda bb: z3.ForAll([mu, ma], z3.Implies(z3.And(ma >= 0, ma <= bb), S(mu, ma) <= S(mu, bb)))
        c.assume(induct(c, "prefix-multiplicities-are-monotone", mono, nE, prop=P))
        a, b, q = z3.Ints("ea eb eq")
        # G.edges() lists each edge of a simple digraph once, and both endpoints are nodes of G
        c.assume(z3.ForAll([a, b], z3.Implies(z3.And(0 <= a, a < b, b < nE), z3.Or(SRC(a) != SRC(b), DST(a) != DST(b)))))
        c.assume(z3.ForAll([a], z3.Implies(z3.And(a >= 0, a < nE), z3.Exists([q], z3.And(q >= 0, q < nV, NODE(q) == SRC(a))))))
        g = G()
        g.nodes = lambda: SymSeq(nV, lambda j: Sym(NODE(lift(j))), SInt, "nodes")
        g.edges = lambda: SymSeq(nE, lambda j: (Sym(SRC(lift(j))), Sym(DST(lift(j)))), STuple(SInt, SInt), "edges")
        me.G = g
        layer = Sym(z3.Int("layer_i"))
        me.edge_vars_sol = SymMap(STuple(SInt, SInt, SInt), SReal, lambda key: z3.And(HAS(lift(key[0]), lift(key[1])), lift(key[2]) == layer.t),
                                  lambda key: Sym(SIG(lift(key[0]), lift(key[1]))), "edge_vars_sol")
        m = f(me, layer)
        if not isinstance(m, AdjMap):
            c.prove("post:returns-the-residual-dict", False, prop=P)
            return
        w = z3.Int("pw")
        c.prove("post:every-vertex-of-G-is-a-key", z3.ForAll([q], z3.Implies(z3.And(q >= 0, q < nV), m.keys[NODE(q)])), prop=P)
        c.prove("post:list-length=sum-of-rounded-multiplicities-of-the-out-edges", z3.ForAll([w], m.length[w] == S(w, nE)), prop=P)
        c.prove("post:each-edge-contributes-round(sigma)-copies-of-its-head-to-its-tail's-list", blocks(m, nE), prop=P)

    loops = {0: dict(inv=inv0, prop=P, havoc={"residual_graph": lambda old: AdjMap.fresh("rg0")}),
             1: dict(inv=inv1, prop=P, havoc={"residual_graph": lambda old: AdjMap.fresh("rg1")}, keep=("edge_key", "multiplicity", "_")),
             2: dict(inv=inv2, prop=P, on_entry=on_entry2, havoc={"residual_graph": lambda old: AdjMap.fresh("rg2")})}
    u = Unit(F, "AbstractWalkModelDiGraph._build_residual_graph_for_layer", h, globs=dict(utils=UtilsStub, str=lambda x: x), loops=loops, props=[P],
             assumptions=["A3 round(x) is an integer within 1/2 of x", "vertices are integers; str(v) = v (node names are strings)", "G.edges() enumerates each edge of the simple digraph once"],
             literals=dict(dict=AdjMap.empty))
    return u


def all_units():
    return [u_residual()]
