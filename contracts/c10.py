"""Sidecar contracts for C10 / C03 (proof piece): graphutils.max_occurrence - the test that decides whether a greedy decomposition honours a
subpath constraint.  For one path p and a constraint seq:  result = sum over the edges e of seq that are CONSECUTIVE node pairs of p of
edge_lengths.get(e, 1)   (and 0 if that is not positive)."""
import z3
from pyvc import core
from pyvc.core import Sym, lift, INT, REAL, BOOL, Unsupported
from pyvc.heap import SymSeq, SymMap, LazyMap, SInt, SReal, STuple
from pyvc.unit import Unit, NoopLogger

P = "C10,C03"


class U:
    logger = NoopLogger()


class SymSet:
    """set(<abstract sequence>): membership = some element equals the probe"""

    def __init__(self, seq):
        self.seq = seq if isinstance(seq, SymSeq) else seq.to_seq()

    def __contains__(self, x):
        return core.ctx().decide(self.member(x), "element-in-set")

    def member(self, x):
        c = core.ctx()
        i = z3.Int(c.name("si"))
        s = self.seq
        with c.quantified(z3.And(i >= 0, i < s.n)):
            el = s._at(i)
        if isinstance(el, tuple):
            eq = z3.And(*[lift(a) == lift(b) for a, b in zip(el, x)])
        else:
            eq = lift(el) == lift(x)
        return z3.Exists([i], z3.And(i >= 0, i < s.n, eq))


def set_(x=()):
    if isinstance(x, (SymSeq, LazyMap)):
        return SymSet(x)
    return set(x)


def u_max_occurrence():
    st = {}

    def adjacent(path, a, b):
        i = z3.Int("ai")
        return z3.Exists([i], z3.And(i >= 0, i < path.n - 1, lift(path._at(i)) == a, lift(path._at(i + 1)) == b))

    def inv(ns, seq, done):
        occ = ns["occurence"]
        return {"occurrence=sum-of-lengths-of-the-constraint-edges-seen-so-far-that-are-consecutive-on-the-path": lift(occ) == st["OCC"](lift(done))}

    def h(c, f):
        path = SymSeq.fresh("path", SInt)
        seq = SymSeq.fresh("seq", STuple(SInt, SInt))
        HASLEN = z3.Function("has_length", INT, INT, BOOL)
        LEN = z3.Function("edge_length", INT, INT, INT)
        lengths = SymMap(STuple(SInt, SInt), SInt, lambda k: HASLEN(lift(k[0]), lift(k[1])), lambda k: Sym(LEN(lift(k[0]), lift(k[1]))), "edge_lengths")
        OCC = z3.Function("OCC", INT, INT)
        st["OCC"] = OCC
        j = z3.Int("oj")
        ea = lambda q: lift(seq._at(q)[0])
        eb = lambda q: lift(seq._at(q)[1])
        contrib = lambda q: z3.If(adjacent(path, ea(q), eb(q)), z3.If(HASLEN(ea(q), eb(q)), LEN(ea(q), eb(q)), 1), 0)
        c.assume(OCC(0) == 0)
        c.assume(z3.ForAll([j], z3.Implies(z3.And(j >= 0, j < seq.n), OCC(j + 1) == OCC(j) + contrib(j))))       # definition of the spec function
        r = f(seq, [path], lengths)
        c.prove("post:result=max(0, total length of the constraint edges that are consecutive on the path)", lift(r) == z3.If(OCC(seq.n) > 0, OCC(seq.n), 0), prop=P)
    loops = {1: dict(inv=inv, prop=P)}
    return Unit("flowpaths/utils/graphutils.py", "max_occurrence", h, globs=dict(utils=U, set=set_), loops=loops, props=[P, "C03"],
                abstractions=["one abstract path in the list of paths (the outer loop takes the maximum over paths natively)", "nodes are integers"])


def all_units():
    return [u_max_occurrence()]
