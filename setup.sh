#!/usr/bin/env bash
# Builds /verif/.venv offline: python 3.12 (from /venv) + z3-solver, cvc5, jsonschema, icontract from the wheelhouse,
# plus a .pth that exposes /venv's site-packages (networkx, highspy, numpy, editable flowpaths -> /repo).
set -euo pipefail
cd "$(dirname "$0")"
V=.venv
if [ -x "$V/bin/python" ] && "$V/bin/python" -c "import z3, networkx, highspy, flowpaths, jsonschema" 2>/dev/null; then
  echo "venv ok"; exit 0
fi
rm -rf "$V"
/venv/bin/python -m venv "$V"
PIP_NO_INDEX=1 "$V/bin/pip" install -q --no-index --find-links /opt/veriftools/wheels z3-solver cvc5 jsonschema icontract >/dev/null
SP=$("$V/bin/python" -c "import sysconfig; print(sysconfig.get_paths()['purelib'])")
echo "import site; site.addsitedir('/venv/lib/python3.12/site-packages')" > "$SP/_repo_overlay.pth"
"$V/bin/python" -c "import z3, networkx, highspy, flowpaths, jsonschema; print('venv built; z3', z3.get_version_string(), 'flowpaths from', flowpaths.__file__)"
